#!/bin/bash
# development helper: dev.sh build | dev.sh <verifsim args...>
export GOFLAGS=-mod=mod GOPROXY=off GOSUMDB=off GOTOOLCHAIN=local
cd /verif/sim || exit 2
if [ "${1:-}" = build ]; then
  go1.26.8 build -o ../bin/verifsim ./cmd/verifsim
  exit $?
fi
if [ "${1:-}" = go ]; then
  shift
  exec go1.26.8 "$@"
fi
go1.26.8 build -o ../bin/verifsim ./cmd/verifsim || exit 2
exec ../bin/verifsim "$@"
