// Package engine is the child-side protocol shared by all engines.  An engine test binary is
// invoked by the orchestrator with VERIF_MODE=meta|gen|run; in run mode it executes exactly one
// tape inside one synctest bubble, prints one "RESULT {json}" line and exits from inside the
// bubble (library singletons with immortal goroutines make a bubble otherwise endless).
package engine

import (
	"encoding/json"
	"fmt"
	"os"
	"runtime"
	"strings"
	"testing"
	"testing/synctest"

	"verifsim/core"
	"verifsim/simrt"
)

type Engine interface {
	Meta() core.Meta
	// Gen turns a case id ("seed:<n>" or "sweep:<i>") into a tape.  It must be a pure function.
	Gen(caseID string, tier string) (json.RawMessage, error)
	// Run executes the tape inside the bubble and fills the result (verdict, violations, class,
	// probes ...).  A tape that does not describe a sensible scenario yields Verdict "invalid".
	Run(tape json.RawMessage, res *core.Result)
}

type header struct {
	RunSeed   uint64 `json:"run_seed"`
	AutoSched string `json:"auto_sched"`
}

func emit(res *core.Result) {
	b, err := json.Marshal(res)
	if err != nil {
		fmt.Printf("RESULT {\"verdict\":\"harness-error\",\"harness\":%q}\n", err.Error())
		os.Exit(0)
	}
	os.Stdout.Write(append(append([]byte("RESULT "), b...), '\n'))
	os.Exit(0)
}

// Main is called from the engine's TestSim.
func Main(t *testing.T, e Engine) {
	mode := os.Getenv("VERIF_MODE")
	tier := os.Getenv("VERIF_TIER")
	if tier == "" {
		tier = "quick"
	}
	switch mode {
	case "":
		t.Skip("engine binaries are driven by verifsim (VERIF_MODE unset)")
	case "meta":
		b, _ := json.Marshal(e.Meta())
		fmt.Printf("META %s\n", b)
		os.Exit(0)
	case "gen":
		tape, err := e.Gen(os.Getenv("VERIF_CASE"), tier)
		if err != nil {
			fmt.Printf("GENERR %s\n", err)
			os.Exit(0)
		}
		fmt.Printf("TAPE %s\n", tape)
		os.Exit(0)
	case "run":
	default:
		fmt.Printf("RESULT {\"verdict\":\"harness-error\",\"harness\":\"bad VERIF_MODE\"}\n")
		os.Exit(0)
	}
	res := &core.Result{Engine: e.Meta().Engine, Case: "tape", Verdict: "ok", Evals: 1,
		Faults: map[string]int{}, Probes: map[string]int{}, Stats: map[string]int64{}}
	var tape json.RawMessage
	if f := os.Getenv("VERIF_TAPE_FILE"); f != "" {
		b, err := os.ReadFile(f)
		if err != nil {
			res.Verdict, res.Harness = "harness-error", err.Error()
			emit(res)
		}
		tape = b
	} else {
		res.Case = os.Getenv("VERIF_CASE")
		var err error
		tape, err = e.Gen(res.Case, tier)
		if err != nil {
			res.Verdict, res.Harness = "harness-error", "gen: "+err.Error()
			emit(res)
		}
	}
	var h header
	if err := json.Unmarshal(tape, &h); err != nil {
		res.Verdict, res.Harness = "invalid", "tape: "+err.Error()
		emit(res)
	}
	emitOpt := os.Getenv("VERIF_EMIT")
	simrt.SetQuiet(!strings.Contains(emitOpt, "trace"))
	synctest.Test(t, func(t *testing.T) {
		simrt.Init(h.RunSeed, h.AutoSched)
		simrt.OnAbort = func(kind, detail string) {
			// the engine may have installed its own handler via res; default: harness error
			r := *res
			if AbortHook != nil {
				AbortHook(kind, detail, &r)
			} else {
				r.Verdict, r.Harness = "harness-error", kind+": "+detail
			}
			finish(&r, tape, emitOpt)
		}
		func() {
			defer func() {
				if r := recover(); r != nil {
					res.Verdict = "harness-error"
					res.Harness = fmt.Sprintf("panic in engine: %v\n%s", r, Stack())
				}
			}()
			e.Run(tape, res)
		}()
		finish(res, tape, emitOpt)
	})
}

// AbortHook lets an engine turn a scheduler abort (no progress, stuck lock) into a judged result.
var AbortHook func(kind, detail string, res *core.Result)

func finish(res *core.Result, tape json.RawMessage, emitOpt string) {
	c := simrt.Collect()
	res.SimNs = c.SimNs
	res.Ties = c.Ties
	res.Interleave = c.Interleave
	res.TraceHash = c.TraceHash
	res.Class = strings.ReplaceAll(res.Class, "{I}", c.Interleave)
	if res.Stats == nil {
		res.Stats = map[string]int64{}
	}
	res.Stats["switches"] = int64(c.Switches)
	if len(res.Violations) > 0 && res.Verdict == "ok" {
		res.Verdict = "violation"
	}
	if strings.Contains(emitOpt, "trace") {
		res.Trace = c.Trace
	}
	if strings.Contains(emitOpt, "tape") || res.Verdict == "violation" {
		res.Tape = tape
	}
	emit(res)
}

// Stack returns the current goroutine's stack.
func Stack() string {
	buf := make([]byte, 32<<10)
	return string(buf[:runtime.Stack(buf, false)])
}

// Guard runs f and converts a panic into (panicked, top gokrb5 frame, message).
func Guard(f func()) (panicked bool, frame string, msg string) {
	defer func() {
		if r := recover(); r != nil {
			panicked = true
			msg = fmt.Sprint(r)
			frame = TopFrame(Stack(), "github.com/jcmturner/")
		}
	}()
	f()
	return
}

// TopFrame finds the innermost function in a stack dump whose name contains the marker.
func TopFrame(stack, marker string) string {
	for _, ln := range strings.Split(stack, "\n") {
		if strings.HasPrefix(ln, "\t") || !strings.Contains(ln, marker) {
			continue
		}
		fn := ln
		if i := strings.LastIndex(fn, "("); i > 0 {
			fn = fn[:i]
		}
		if i := strings.Index(fn, marker); i >= 0 {
			fn = fn[i+len(marker):]
		}
		return fn
	}
	return "?"
}

// ParseCase splits "seed:<n>" / "sweep:<i>".
func ParseCase(id string) (kind string, n uint64, err error) {
	i := strings.IndexByte(id, ':')
	if i < 0 {
		return "", 0, fmt.Errorf("bad case id %q", id)
	}
	kind = id[:i]
	_, err = fmt.Sscanf(id[i+1:], "%d", &n)
	if kind != "seed" && kind != "sweep" {
		err = fmt.Errorf("bad case kind %q", kind)
	}
	return
}

// Violate appends a violation.
func Violate(res *core.Result, sig string, detail interface{}) {
	for _, v := range res.Violations {
		if v.Signature == sig {
			return
		}
	}
	v := core.Violation{Signature: sig, Detail: core.MustJSON(detail)}
	res.Violations = append(res.Violations, v)
	res.Verdict = "violation"
	// written at once as well: if the process is killed later in the run (fatal runtime error in
	// the code under test) what was found before must not be lost
	if b, err := json.Marshal(v); err == nil {
		os.Stdout.Write(append(append([]byte("PARTIAL "), b...), '\n'))
	}
}
