// Package world holds the simulated parties and seams that several engines share: the minting
// of tickets and AP-REQs by the reference implementation together with their ground truth, the
// reference acceptor, the service keytab model, the endpoint behaviours of the simulated
// network.  Nothing in here imports gokrb5.
package world

import (
	"fmt"
	"sort"
	"strings"
	"time"

	"verifsim/core"
	"verifsim/refkrb/der"
	"verifsim/refkrb/rcrypto"
	"verifsim/refkrb/rk"
)

// KeyFor derives a deterministic key for a label from the run seed.
func KeyFor(seed uint64, label string, etype int) rk.EncryptionKey {
	r := core.NewRng(seed).Derive("key/" + label + fmt.Sprint("/", etype))
	k, err := rcrypto.RandomToKey(etype, r.Bytes(rcrypto.SeedSize(etype)))
	if err != nil {
		panic(err)
	}
	return rk.EncryptionKey{Etype: int32(etype), Value: k}
}

// KtEntry is one entry of the service keytab model.
type KtEntry struct {
	Principal string // "HTTP/host.sim.test"
	Realm     string
	Kvno      int
	Etype     int
	Key       rk.EncryptionKey
	Ts        uint32
}

// KeytabModel is the oracle's view of the keytab (the same entries are rendered to bytes by
// rk.WriteKeytab and parsed by the real keytab.Unmarshal).
type KeytabModel struct{ Entries []KtEntry }

func (m *KeytabModel) Bytes() []byte {
	var es []rk.KeytabEntry
	for _, e := range m.Entries {
		es = append(es, rk.KeytabEntry{Principal: rk.ParseName(e.Principal), Realm: e.Realm, Kvno: uint32(e.Kvno), Key: e.Key, Timestamp: e.Ts})
	}
	return rk.WriteKeytab(es)
}

// Select implements the statement's key selection: entry for the principal in the realm with
// the etype and the key version (any version, newest entry, when kvno is 0).
func (m *KeytabModel) Select(principal []string, realm string, kvno int64, etype int32) *KtEntry {
	var best *KtEntry
	for i := range m.Entries {
		e := &m.Entries[i]
		if e.Realm != realm || int32(e.Etype) != etype || strings.Join(principal, "\x00") != strings.Join(strings.Split(e.Principal, "/"), "\x00") {
			continue
		}
		if kvno != 0 && int64(e.Kvno) != kvno {
			continue
		}
		if best == nil || e.Ts > best.Ts {
			best = e
		}
	}
	return best
}

// BuildKeytab makes services x realms x kvnos x etypes entries with distinct keys; newer key
// versions carry later timestamps.
func BuildKeytab(seed uint64, services, realms []string, kvnos, etypes []int) *KeytabModel {
	m := &KeytabModel{}
	for _, s := range services {
		for _, r := range realms {
			for _, kv := range kvnos {
				for _, et := range etypes {
					m.Entries = append(m.Entries, KtEntry{Principal: s, Realm: r, Kvno: kv, Etype: et,
						Key: KeyFor(seed, fmt.Sprintf("svc/%s@%s/%d", s, r, kv), et), Ts: uint32(1_000_000 + kv*1000)})
				}
			}
		}
	}
	return m
}

// Defect is one deviation from a valid request.
type Defect struct {
	Kind string `json:"kind"`
	Arg  int64  `json:"arg,omitempty"`
}

// ReqSpec describes one AP-REQ to mint (all of it comes from the tape).
type ReqSpec struct {
	Client    string   `json:"client"`
	CRealm    string   `json:"crealm,omitempty"`
	Svc       string   `json:"svc"`   // principal the ticket is really issued for
	Realm     string   `json:"realm"` // its realm
	Kvno      int      `json:"kvno"`
	Etype     int      `json:"etype"`
	KvnoField bool     `json:"kvno_field"`
	StartTime bool     `json:"starttime"`
	Addrs     string   `json:"addrs,omitempty"` // "" | match | other | both
	Subkey    bool     `json:"subkey,omitempty"`
	Seq       bool     `json:"seq,omitempty"`
	Cksum     bool     `json:"cksum,omitempty"`
	NameType  int32    `json:"auth_name_type,omitempty"` // name-type used in the authenticator (not significant)
	LifeS     int64    `json:"life_s,omitempty"`
	PAC       string   `json:"pac,omitempty"` // "" | valid | badsig | wrongkey
	Defects   []Defect `json:"defects,omitempty"`
}

// Truth is the generator's ground truth about a minted request: what was sealed with what.
type Truth struct {
	SealKey      rk.EncryptionKey
	TicketUsage  uint32
	TicketIntact bool
	OuterSName   []string
	OuterRealm   string
	OuterKvno    int64 // 0 = absent
	OuterEtype   int32
	Flags        uint32
	TktCName     []string
	TktCNameType int32
	TktCRealm    string
	AuthTime     time.Time
	Start        time.Time // effective start (starttime, else authtime)
	End          time.Time
	Addrs        [][]byte // nil = none
	AddrTypes    []int32  // address type of each entry of Addrs
	SessKey      rk.EncryptionKey
	AuthKeyOK    bool
	AuthUsage    uint32
	AuthIntact   bool
	AuthEtypeOK  bool
	AuthCName    []string
	AuthCRealm   string
	CTime        time.Time // including microseconds
	HasPAC       bool
	PACValid     bool
	Defects      []string
	TimeDelta    int64 // presentation instant = S + TimeDelta
	Bytes        []byte
	TicketCipher []byte
	AuthCipher   []byte
}

var ClientAddrMatch = []byte{10, 1, 2, 3}
var ClientAddrOther = []byte{10, 9, 9, 9}

// ClientAddrMatch6 is the client's address in the other family (IPv6, address type 24).
var ClientAddrMatch6 = []byte{0xfd, 0, 0, 0, 0, 0, 0, 0, 0, 0, 0, 0, 10, 1, 2, 3}

func hasDefect(ds []Defect, kind string) *Defect {
	for i := range ds {
		if ds[i].Kind == kind {
			return &ds[i]
		}
	}
	return nil
}

// Minter mints requests; serial makes every authenticator unique.
type Minter struct {
	Seed   uint64
	Kt     *KeytabModel
	Serial int
	PACFor func(spec ReqSpec, svcKey rk.EncryptionKey, r *core.Rng) ([]rk.AuthDataEntry, bool) // optional
	// PlainHook lets a Byzantine peer damage the plaintext of the ticket ("tkt") or of the
	// authenticator ("auth") before it is sealed with the right key (C04).
	PlainHook func(which string, plain []byte) []byte
}

// Mint builds the AP-REQ for spec as it would be presented at instant s (a whole second) with
// the given permitted skew (needed to place times on the bounds).  r drives confounders and
// positions of corruptions.
func (m *Minter) Mint(spec ReqSpec, s time.Time, skew time.Duration, r *core.Rng) (*Truth, error) {
	m.Serial++
	et := spec.Etype
	if !rcrypto.Supported(et) {
		return nil, fmt.Errorf("etype %d", et)
	}
	if spec.CRealm == "" {
		spec.CRealm = "SIM.TEST"
	}
	if spec.LifeS == 0 {
		spec.LifeS = 3600
	}
	ds := spec.Defects
	tr := &Truth{TicketUsage: rk.KUTicket, TicketIntact: true, AuthKeyOK: true, AuthUsage: rk.KUAPReqAuth, AuthIntact: true, AuthEtypeOK: true}
	for _, d := range ds {
		tr.Defects = append(tr.Defects, d.Kind)
	}
	sort.Strings(tr.Defects)
	// --- the sealing key
	ent := m.Kt.Select(strings.Split(spec.Svc, "/"), spec.Realm, int64(spec.Kvno), int32(et))
	if ent != nil {
		tr.SealKey = ent.Key
	} else {
		tr.SealKey = KeyFor(m.Seed, fmt.Sprintf("svc/%s@%s/%d", spec.Svc, spec.Realm, spec.Kvno), et)
	}
	if hasDefect(ds, "wrong-key") != nil {
		tr.SealKey = KeyFor(m.Seed, fmt.Sprintf("stranger/%d", m.Serial), et)
	}
	// --- times
	sess := KeyFor(m.Seed, fmt.Sprintf("session/%d", m.Serial), et)
	tr.SessKey = sess
	auth := s.Add(-10 * time.Minute)
	start := s.Add(-10 * time.Minute)
	end := s.Add(time.Duration(spec.LifeS) * time.Second)
	ct := s.Add(-time.Duration(200+m.Serial) * time.Microsecond) // unique per mint, well inside any skew
	// ticket times travel in whole seconds: with a configured skew that is not a whole number of
	// seconds the bound is put on a whole second and the presentation instant carries the fraction
	skewFloor := skew.Truncate(time.Second)
	skewCeil := skewFloor
	if skewCeil != skew {
		skewCeil += time.Second
	}
	if d := hasDefect(ds, "t-end"); d != nil { // presentation at end+skew+Arg
		end = s.Add(-skewFloor)
		if !end.After(start) {
			start = end.Add(-time.Hour)
			auth = start
		}
		tr.TimeDelta = d.Arg + int64(skew-skewFloor)
	}
	if d := hasDefect(ds, "t-start"); d != nil { // presentation at start-skew+Arg
		start = s.Add(skewCeil)
		auth = start
		end = start.Add(time.Hour)
		spec.StartTime = true
		tr.TimeDelta = d.Arg + int64(skewCeil-skew)
	}
	if d := hasDefect(ds, "t-authtime-future"); d != nil { // no starttime, authtime beyond the skew in the future
		spec.StartTime = false
		auth = s.Add(skewCeil)
		start = auth
		end = auth.Add(time.Hour)
		tr.TimeDelta = d.Arg + int64(skewCeil-skew)
	}
	if d := hasDefect(ds, "t-ctime-old"); d != nil { // presentation at ctime+skew+Arg
		ct = s.Add(-skew)
		tr.TimeDelta = d.Arg
	}
	if d := hasDefect(ds, "t-ctime-future"); d != nil { // presentation at ctime-skew+Arg
		ct = s.Add(skew)
		tr.TimeDelta = d.Arg
	}
	tr.AuthTime, tr.Start, tr.End, tr.CTime = auth, start, end, ct
	// --- ticket contents
	cname := rk.ParseName(spec.Client)
	etp := rk.EncTicketPart{Flags: rk.Bit(rk.FlagInitial) | rk.Bit(rk.FlagPreAuthent), Key: sess, CRealm: spec.CRealm, CName: cname,
		TrType: 1, AuthTime: auth, EndTime: end}
	if spec.StartTime {
		st := start
		etp.StartTime = &st
	}
	if hasDefect(ds, "flag-invalid") != nil {
		etp.Flags |= rk.Bit(rk.FlagInvalid)
	}
	switch spec.Addrs {
	case "match":
		etp.CAddr = []rk.HostAddress{{Type: 2, Addr: ClientAddrMatch}}
	case "other":
		etp.CAddr = []rk.HostAddress{{Type: 2, Addr: ClientAddrOther}}
	case "both":
		etp.CAddr = []rk.HostAddress{{Type: 2, Addr: ClientAddrOther}, {Type: 2, Addr: ClientAddrMatch}}
	case "match6":
		etp.CAddr = []rk.HostAddress{{Type: 24, Addr: ClientAddrMatch6}}
	case "other4-match6":
		etp.CAddr = []rk.HostAddress{{Type: 2, Addr: ClientAddrOther}, {Type: 24, Addr: ClientAddrMatch6}}
	// address lists as Windows KDCs write them: the client's NetBIOS name (type 20, 16 bytes) next to
	// - or instead of - its network addresses; and an entry of another type whose bytes are those of
	// the client's IPv4 address (an address is its type and its bytes)
	case "nb-other":
		etp.CAddr = []rk.HostAddress{{Type: 20, Addr: []byte("CLIENTHOST      ")}, {Type: 2, Addr: ClientAddrOther}}
	case "nb-match":
		etp.CAddr = []rk.HostAddress{{Type: 20, Addr: []byte("CLIENTHOST      ")}, {Type: 2, Addr: ClientAddrMatch}}
	case "nb-only":
		etp.CAddr = []rk.HostAddress{{Type: 20, Addr: []byte("CLIENTHOST      ")}}
	case "match-bytes-as-type3":
		etp.CAddr = []rk.HostAddress{{Type: 3, Addr: ClientAddrMatch}}
	}
	for _, a := range etp.CAddr {
		tr.Addrs = append(tr.Addrs, a.Addr)
		tr.AddrTypes = append(tr.AddrTypes, int32(a.Type))
	}
	for _, d := range ds {
		if strings.HasPrefix(d.Kind, "pac-") {
			spec.PAC = strings.TrimPrefix(d.Kind, "pac-")
		}
	}
	if spec.PAC != "" && m.PACFor != nil {
		if ad, valid := m.PACFor(spec, tr.SealKey, r); ad != nil {
			etp.AuthData = ad
			tr.HasPAC, tr.PACValid = true, valid
		}
	}
	tr.Flags, tr.TktCName, tr.TktCRealm = etp.Flags, cname.Names, spec.CRealm
	tr.TktCNameType = cname.Type
	if hasDefect(ds, "ticket-usage") != nil {
		tr.TicketUsage = rk.KUASRepEncPart
	}
	conf := r.Bytes(rcrypto.ConfounderSize(et))
	tplain := etp.EncBytes()
	if m.PlainHook != nil {
		tplain = m.PlainHook("tkt", tplain)
	}
	enc, err := rk.Seal(tr.SealKey, tr.TicketUsage, tplain, conf, int64(spec.Kvno), spec.KvnoField)
	if err != nil {
		return nil, err
	}
	// --- outer (unauthenticated) ticket labels
	tkt := rk.Ticket{Realm: spec.Realm, SName: rk.ParseName(spec.Svc), Enc: enc}
	if d := hasDefect(ds, "wrong-kvno-label"); d != nil {
		delta := d.Arg // other key versions, among them ones equal to the right one modulo 2^8, 2^16, 2^24
		if delta <= 0 {
			delta = 1
		}
		tkt.Enc.Kvno, tkt.Enc.HasKvn = int64(spec.Kvno)+delta, true
	}
	if hasDefect(ds, "wrong-etype-label") != nil {
		others := []int{17, 18, 19, 20, 16, 23}
		for _, o := range others {
			if o != et {
				tkt.Enc.Etype = int32(o)
				break
			}
		}
	}
	if hasDefect(ds, "wrong-realm-label") != nil {
		if tkt.Realm == "OTHER.TEST" {
			tkt.Realm = "SIM.TEST"
		} else {
			tkt.Realm = "OTHER.TEST"
		}
	}
	if hasDefect(ds, "wrong-sname-label") != nil {
		if spec.Svc == "HTTP/other.sim.test" {
			tkt.SName = rk.ParseName("HTTP/host.sim.test")
		} else {
			tkt.SName = rk.ParseName("HTTP/other.sim.test")
		}
	}
	if hasDefect(ds, "sname-label-krbtgt") != nil {
		// the clear-text name claims the ticket is one for the ticket-granting service
		tkt.SName = rk.PrincipalName{Type: 2, Names: []string{"krbtgt", "SIM.TEST"}}
	}
	if hasDefect(ds, "sname-empty") != nil {
		tkt.SName = rk.PrincipalName{Type: 1, Names: nil}
	}
	tr.TicketIntact = mutateCipher(&tkt.Enc.Cipher, ds, "tkt", r)
	if hasDefect(ds, "tkt-extra-optionals") != nil {
		// the ticket is what the KDC sealed; the holder appends, inside the ticket's SEQUENCE, a
		// plaintext EncTicketPart of his own that carries the optional fields he would like to have
		// (his address, an early start time, a long renew-till): none of it is authenticated, so
		// nothing about the verdict changes
		x := etp
		early := etp.AuthTime.Add(-time.Hour)
		late := etp.EndTime.Add(240 * time.Hour)
		x.StartTime, x.RenewTill = &early, &late
		x.CAddr = []rk.HostAddress{{Type: 2, Addr: ClientAddrMatch}, {Type: 2, Addr: ClientAddrOther}, {Type: 24, Addr: ClientAddrMatch6}}
		if n, _, err := der.Parse(x.EncBytes()); err == nil {
			tkt.Extra = append([]byte{}, n.Content...)
		}
	}
	if hasDefect(ds, "tkt-forged-plain-appended") != nil {
		// a forger without the service key: the enc-part is noise, and a plaintext EncTicketPart of
		// his own making (with the session key he seals the authenticator with) is appended to the
		// ticket's SEQUENCE, where a lenient decoder may pick it up as "the decrypted part"
		tkt.Enc.Cipher = r.Bytes(len(tkt.Enc.Cipher))
		if n, _, err := der.Parse(tplain); err == nil {
			tkt.Extra = append([]byte{}, n.Content...)
		}
		tr.TicketIntact = false
	}
	tr.OuterSName, tr.OuterRealm, tr.OuterEtype = tkt.SName.Names, tkt.Realm, tkt.Enc.Etype
	if tkt.Enc.HasKvn {
		tr.OuterKvno = tkt.Enc.Kvno
	}
	// --- authenticator
	ctSec := ct.Truncate(time.Second)
	au := rk.Authenticator{CRealm: spec.CRealm, CName: cname, CTime: ctSec, Cusec: int(ct.Sub(ctSec) / time.Microsecond)}
	if spec.NameType != 0 {
		au.CName.Type = spec.NameType
	}
	if hasDefect(ds, "cname-mismatch") != nil {
		au.CName = rk.ParseName(spec.Client + "x")
	}
	if hasDefect(ds, "cname-extra-component") != nil {
		au.CName = rk.ParseName(spec.Client + "/admin")
	}
	if hasDefect(ds, "cname-fewer-components") != nil {
		// a proper prefix of the ticket's client name (no names at all for a one-component client)
		au.CName.Names = append([]string{}, cname.Names[:len(cname.Names)-1]...)
	}
	if hasDefect(ds, "cname-empty") != nil {
		au.CName = rk.PrincipalName{Type: 1}
	}
	if hasDefect(ds, "crealm-mismatch") != nil {
		au.CRealm = "EVIL.TEST"
	}
	if spec.Subkey {
		k := KeyFor(m.Seed, fmt.Sprintf("subkey/%d", m.Serial), et)
		au.Subkey = &k
	}
	if spec.Seq {
		v := int64(r.Intn(1 << 30))
		au.SeqNumber = &v
	}
	if spec.Cksum {
		au.Cksum = &rk.Checksum{Type: 0x8003, Sum: append(make([]byte, 20), 0, 0, 0, 0)}
		au.Cksum.Sum[0] = 16
	}
	tr.AuthCName, tr.AuthCRealm = au.CName.Names, au.CRealm
	akey := sess
	if hasDefect(ds, "auth-wrong-key") != nil {
		akey = KeyFor(m.Seed, fmt.Sprintf("notsession/%d", m.Serial), et)
		tr.AuthKeyOK = false
	}
	if hasDefect(ds, "auth-usage-7") != nil {
		tr.AuthUsage = rk.KUTGSReqAuth
	}
	aplain := au.EncBytes()
	if m.PlainHook != nil {
		aplain = m.PlainHook("auth", aplain)
	}
	aenc, err := rk.Seal(akey, tr.AuthUsage, aplain, r.Bytes(rcrypto.ConfounderSize(et)), 0, false)
	if err != nil {
		return nil, err
	}
	if hasDefect(ds, "auth-etype-label") != nil {
		for _, o := range []int{17, 18, 19, 20, 16, 23} {
			if o != et {
				aenc.Etype = int32(o)
				break
			}
		}
		tr.AuthEtypeOK = false
	}
	tr.AuthIntact = mutateCipher(&aenc.Cipher, ds, "auth", r)
	ap := rk.APReq{Ticket: tkt, Auth: aenc}
	tr.Bytes = ap.EncBytes()
	tr.TicketCipher, tr.AuthCipher = tkt.Enc.Cipher, aenc.Cipher
	return tr, nil
}

// mutateCipher applies <which>-flip / -trunc / -extend defects; it reports whether the
// ciphertext is still intact.
func mutateCipher(c *[]byte, ds []Defect, which string, r *core.Rng) bool {
	intact := true
	b := append([]byte{}, *c...)
	if hasDefect(ds, which+"-flip") != nil {
		i := r.Intn(len(b))
		b[i] ^= 1 << uint(r.Intn(8))
		intact = false
	}
	if hasDefect(ds, which+"-trunc") != nil {
		k := 1 + r.Intn(len(b))
		if r.Chance(1, 3) {
			k = 1 + r.Intn(20)
			if k > len(b) {
				k = len(b)
			}
		}
		b = b[:len(b)-k]
		intact = false
	}
	if hasDefect(ds, which+"-extend") != nil {
		b = append(b, r.Bytes(1+r.Intn(16))...)
		intact = false
	}
	*c = b
	return intact
}

// ServiceSettings is the model's view of the service configuration.
type ServiceSettings struct {
	SkewS       int64  `json:"skew_s"`            // 0 (and SkewMs 0) = not configured (the documented default of five minutes applies)
	SkewMs      int64  `json:"skew_ms,omitempty"` // added to SkewS: configured skews below and between whole seconds
	RequireAddr bool   `json:"require_addr,omitempty"`
	ClientAddr  string `json:"client_addr,omitempty"` // "" | match | other | match6 (the client's IPv6 address)
	KtPrinc     string `json:"ktprinc,omitempty"`     // "" | principal name used for the key look-up
	DecodePAC   bool   `json:"decode_pac,omitempty"`
}

func (s ServiceSettings) Skew() time.Duration {
	if s.SkewS == 0 && s.SkewMs == 0 {
		return 5 * time.Minute
	}
	return time.Duration(s.SkewS)*time.Second + time.Duration(s.SkewMs)*time.Millisecond
}

// Verdict of the reference model.
type Verdict struct {
	Accept              string   // accept | reject | either
	Reasons             []string // why reject / why either
	ReplayKey           string
	PassedToReplayCheck bool // conditions up to the replay check held (the identity is then remembered)
}

// Accept evaluates RFC 4120 3.2.3 as worded in property C01 on the ground truth.
func Accept(tr *Truth, st ServiceSettings, kt *KeytabModel, now time.Time, replay map[string]bool) Verdict {
	v := Verdict{Accept: "accept"}
	reject := func(r string) { v.Reasons = append(v.Reasons, r); v.Accept = "reject" }
	either := func(r string) {
		v.Reasons = append(v.Reasons, "either:"+r)
		if v.Accept == "accept" {
			v.Accept = "either"
		}
	}
	skew := st.Skew()
	// 1. key selection and ticket decryption
	princ := tr.OuterSName
	if st.KtPrinc != "" {
		princ = strings.Split(st.KtPrinc, "/")
	}
	ent := kt.Select(princ, tr.OuterRealm, tr.OuterKvno, tr.OuterEtype)
	switch {
	case ent == nil:
		reject("no-key-selected")
	case string(ent.Key.Value) != string(tr.SealKey.Value) || ent.Key.Etype != tr.SealKey.Etype:
		reject("selected-key-is-not-sealing-key")
	case tr.TicketUsage != rk.KUTicket:
		reject("ticket-key-usage")
	case !tr.TicketIntact:
		reject("ticket-ciphertext-damaged")
	}
	// 2. validity
	if tr.Flags&rk.Bit(rk.FlagInvalid) != 0 {
		reject("invalid-flag")
	}
	if lo := tr.Start.Add(-skew); now.Before(lo) {
		reject("not-yet-valid")
	} else if now.Equal(lo) {
		either("on-start-bound")
	}
	if hi := tr.End.Add(skew); now.After(hi) {
		reject("expired")
	} else if now.Equal(hi) {
		either("on-end-bound")
	}
	// 3. addresses
	var ca []byte
	caType := int32(2)
	switch st.ClientAddr {
	case "match":
		ca = ClientAddrMatch
	case "other":
		ca = ClientAddrOther
	case "match6":
		ca, caType = ClientAddrMatch6, 24
	}
	if len(tr.Addrs) == 0 {
		if st.RequireAddr {
			reject("address-required-but-absent")
		}
	} else if ca == nil {
		either("ticket-has-addresses-but-service-has-no-client-address")
	} else {
		found := false
		for i, a := range tr.Addrs {
			if string(a) == string(ca) && (i >= len(tr.AddrTypes) || tr.AddrTypes[i] == caType) {
				found = true
			}
		}
		if !found {
			reject("client-address-not-in-ticket")
		}
	}
	// 4. authenticator
	switch {
	case !tr.AuthKeyOK:
		reject("authenticator-not-under-session-key")
	case tr.AuthUsage != rk.KUAPReqAuth:
		reject("authenticator-key-usage")
	case !tr.AuthIntact:
		reject("authenticator-ciphertext-damaged")
	case !tr.AuthEtypeOK:
		// the etype label of the authenticator's EncryptedData is an unauthenticated hint; the
		// statement only asks that it decrypts under the session key (MIT refuses, gokrb5 ignores
		// the label): either answer is allowed
		either("authenticator-etype-label")
	}
	// 5. names
	if strings.Join(tr.AuthCName, "\x00") != strings.Join(tr.TktCName, "\x00") || len(tr.AuthCName) != len(tr.TktCName) {
		reject("cname-mismatch")
	}
	if tr.AuthCRealm != tr.TktCRealm {
		reject("crealm-mismatch")
	}
	// 6. authenticator time
	d := now.Sub(tr.CTime)
	if d < 0 {
		d = -d
	}
	if d > skew {
		reject("authenticator-skew")
	} else if d == skew {
		either("on-skew-bound")
	}
	// 7. replay
	v.ReplayKey = fmt.Sprintf("%s|%d|%s", strings.Join(tr.AuthCName, "/"), tr.CTime.UnixNano(), strings.Join(tr.OuterSName, "/"))
	if v.Accept != "reject" {
		v.PassedToReplayCheck = true
		if replay[v.ReplayKey] {
			reject("replay")
		} else if SameClientTime(replay, v.ReplayKey) {
			// the same client and client time were accepted for another service name: not a replay
			// by the triple of the statement, but nothing that names the service in a request is
			// protected, and "authenticators differing in client name or timestamp are never mistaken
			// for replays of each other" leaves a cache free not to partition by service
			either("same-client-and-time-accepted-under-another-service-name")
		}
	}
	// 8. PAC
	if tr.HasPAC && st.DecodePAC && !tr.PACValid {
		reject("pac-invalid")
	}
	return v
}

// SameClientTime reports whether m holds a replay key with the client and client time of key
// (whatever its service name).
func SameClientTime(m map[string]bool, key string) bool {
	i := strings.LastIndex(key, "|")
	if i < 0 {
		return false
	}
	for k, v := range m {
		if v && strings.HasPrefix(k, key[:i+1]) {
			return true
		}
	}
	return false
}

// StdPACFor returns a PACFor hook that re-signs the captured sample PAC under the ticket's
// service key (valid), or damages it in one named way:
// flipped (a signed byte changed after signing), wrongkey (signed under another key), sigflipped
// (a byte of the server signature changed), truncated (the PAC torn), nosig (server signature
// buffer removed), noinfo (logon info buffer removed).
func StdPACFor(sample []byte, seed uint64) func(spec ReqSpec, svcKey rk.EncryptionKey, r *core.Rng) ([]rk.AuthDataEntry, bool) {
	return func(spec ReqSpec, svcKey rk.EncryptionKey, r *core.Rng) ([]rk.AuthDataEntry, bool) {
		if !rk.PACSignable(int(svcKey.Etype)) {
			return nil, false // no PAC signature type for this etype (des3): the ticket carries no PAC
		}
		bufs, err := rk.ParsePAC(sample)
		if err != nil {
			return nil, false
		}
		kdcKey := KeyFor(seed, "krbtgt-for-pac", 18)
		signKey := svcKey
		if spec.PAC == "wrongkey" {
			signKey = KeyFor(seed, "not-the-service-key", int(svcKey.Etype))
		}
		var use []rk.PACBuffer
		for _, b := range bufs {
			if spec.PAC == "noinfo" && b.Type == rk.PACBufLogonInfo {
				continue
			}
			use = append(use, b)
		}
		pac, err := rk.SignPAC(use, signKey, kdcKey)
		if err != nil {
			return nil, false
		}
		valid := false
		switch spec.PAC {
		case "valid":
			valid = true
		case "flipped":
			pac[96+r.Intn(500)] ^= 1 << uint(r.Intn(8)) // inside the logon information buffer
		case "sigflipped":
			// the server signature is the second last buffer
			n := len(use) + 2
			off := int(pac[8+16*(n-2)+8]) | int(pac[8+16*(n-2)+9])<<8
			pac[off+4+r.Intn(8)] ^= 0x40
		case "truncated":
			pac = pac[:r.Range(1, len(pac)-1)]
		case "nosig":
			bs, _ := rk.ParsePAC(pac)
			var keep []rk.PACBuffer
			for _, b := range bs {
				if b.Type != rk.PACBufServerSig {
					keep = append(keep, b)
				}
			}
			pac, _ = rk.BuildPAC(keep)
		case "wrongkey", "noinfo":
		default:
			return nil, false
		}
		return rk.WrapPAC(pac), valid
	}
}
