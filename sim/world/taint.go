package world

import (
	"bytes"
	"encoding/base64"
	"encoding/hex"
	"fmt"
)

// Taint monitor (property C20): a registry of planted, high-entropy secrets and a search of
// every monitored sink for each of them - raw, hex in either case, and base64 (standard or URL
// alphabet) in any alignment.  Encoded forms are found by decoding every hex / base64 looking run
// of the sink in all alignments and searching the decoded bytes for the raw secret.

type Secret struct {
	Kind  string // password | long-term-key | session-key | subkey
	Label string
	Value []byte
}

type Leak struct {
	Sink   string `json:"sink"`
	Kind   string `json:"secret_kind"`
	Label  string `json:"secret"`
	Form   string `json:"form"` // raw | hex | base64
	Around string `json:"around"`
}

type Taint struct {
	Secrets []Secret
	seen    map[string]bool
	Sinks   int
	Bytes   int64
}

func NewTaint() *Taint { return &Taint{seen: map[string]bool{}} }

func (t *Taint) Add(kind, label string, v []byte) {
	if len(v) < 8 {
		return // too short to exclude chance matches
	}
	k := kind + string(v)
	if t.seen[k] {
		return
	}
	t.seen[k] = true
	t.Secrets = append(t.Secrets, Secret{kind, label, append([]byte{}, v...)})
}

func isHex(c byte) bool {
	return (c >= '0' && c <= '9') || (c >= 'a' && c <= 'f') || (c >= 'A' && c <= 'F')
}
func isB64(c byte) bool {
	return (c >= '0' && c <= '9') || (c >= 'a' && c <= 'z') || (c >= 'A' && c <= 'Z') || c == '+' || c == '/' || c == '-' || c == '_'
}

func runs(b []byte, ok func(byte) bool, min int) [][]byte {
	var out [][]byte
	i := 0
	for i < len(b) {
		if !ok(b[i]) {
			i++
			continue
		}
		j := i
		for j < len(b) && ok(b[j]) {
			j++
		}
		if j-i >= min {
			out = append(out, b[i:j])
		}
		i = j
	}
	return out
}

// Scan searches one sink; it returns the leaks found.
func (t *Taint) Scan(sink string, data []byte) []Leak {
	t.Sinks++
	t.Bytes += int64(len(data))
	if len(data) == 0 || len(t.Secrets) == 0 {
		return nil
	}
	var leaks []Leak
	find := func(hay []byte, form string) {
		for _, s := range t.Secrets {
			if i := bytes.Index(hay, s.Value); i >= 0 {
				lo, hi := i-8, i+len(s.Value)+8
				if lo < 0 {
					lo = 0
				}
				if hi > len(hay) {
					hi = len(hay)
				}
				leaks = append(leaks, Leak{Sink: sink, Kind: s.Kind, Label: s.Label, Form: form, Around: fmt.Sprintf("%q", hay[lo:hi])})
			}
		}
	}
	find(data, "raw")
	for _, r := range runs(data, isHex, 16) {
		for off := 0; off < 2; off++ {
			h := r[off:]
			h = h[:len(h)/2*2]
			if d, err := hex.DecodeString(string(h)); err == nil {
				find(d, "hex")
			}
		}
	}
	for _, r := range runs(data, isB64, 12) {
		for off := 0; off < 4 && off < len(r); off++ {
			s := r[off:]
			s = s[:len(s)/4*4]
			std := bytes.NewBuffer(nil)
			for _, c := range s {
				switch c {
				case '-':
					c = '+'
				case '_':
					c = '/'
				}
				std.WriteByte(c)
			}
			if d, err := base64.StdEncoding.DecodeString(std.String()); err == nil {
				find(d, "base64")
			}
		}
	}
	return leaks
}
