package world

import (
	"encoding/binary"
	"fmt"
	"sort"
	"sync"
	"sync/atomic"
	"time"

	"verifsim/shim/simnet"
	"verifsim/simrt"
)

// Behaviour of one (address, transport) endpoint.
type Behaviour struct {
	Kind string `json:"kind"`          // answer | fragment | refuse | dialtimeout | close | silent | slow | krberror | toobig | liar | garbage | stale | dup
	Arg  int64  `json:"arg,omitempty"` // close: bytes delivered before EOF; krberror: code; slow: latency ns; fragment: piece size; liar: announced length
}

// NetEvent is one thing that happened at an endpoint.
type NetEvent struct {
	At    int64 // simulated ns since start of run
	Task  int
	Proto string
	Addr  string
	What  string // dial | dial-refused | dial-timeout | request | reply | close
	N     int
	ReqID string // hash of the request bytes (delimits one transmission of one request)
}

type taskNetLog struct {
	mu  sync.Mutex
	evs []NetEvent
}

// Responder produces the peer's honest reply to a complete request.
type Responder func(proto, addr string, req []byte) []byte

// Net implements simnet.World: an endpoint table with scripted behaviour in front of responders.
type Net struct {
	Beh       map[string]Behaviour // "udp!10.0.0.1:88"
	Resp      map[string]Responder // by address
	LatencyNs int64
	CNAME     map[string]string // simulated DNS: host -> canonical name ("!" prefix = look-up error)
	Fired     map[string]int    // fault kinds that took effect (single-task engines only)
	FiredMu   sync.Mutex
	logs      [512]taskNetLog
	Last      map[string][]byte // per address: the reply to the previous request (for "stale")
	// Mangle lets an engine damage a reply in flight (C04, C09): called with the honest reply.
	Mangle func(proto, addr string, req, reply []byte) []byte
	// ErrReply builds a KRB-ERROR with the given code for the krberror / toobig behaviours.
	ErrReply func(addr string, code int32, req []byte) []byte
	// MultiTask disables the bookkeeping that would share mutable state between tasks.
	MultiTask bool
	// OnDial, when set, sees every connection attempt before it is answered (engines use it to
	// stop a run whose client dials without end).
	OnDial func(proto, addr string)
	// Down, while set, is the behaviour of EVERY endpoint for connections dialled from now on: a
	// network outage (partition between the client and all its servers) that an engine starts and
	// heals from its workload.  Connections dialled before keep the behaviour they were dialled with.
	Down atomic.Pointer[Behaviour]
}

func NewNet() *Net {
	return &Net{Beh: map[string]Behaviour{}, Resp: map[string]Responder{}, LatencyNs: 1_000_000, CNAME: map[string]string{}, Fired: map[string]int{}, Last: map[string][]byte{}}
}

func (n *Net) fire(kind string) {
	if n.MultiTask {
		return
	}
	n.FiredMu.Lock()
	n.Fired[kind]++
	n.FiredMu.Unlock()
}

func (n *Net) logEv(e NetEvent) {
	e.At = simrt.NowNs()
	e.Task = simrt.Cur().ID
	l := &n.logs[e.Task&511]
	l.mu.Lock()
	l.evs = append(l.evs, e)
	l.mu.Unlock()
}

// Events returns the merged transport log in (time, task) order.
func (n *Net) Events() []NetEvent {
	var out []NetEvent
	for i := range n.logs {
		l := &n.logs[i]
		l.mu.Lock()
		out = append(out, l.evs...)
		l.mu.Unlock()
	}
	sort.SliceStable(out, func(i, j int) bool {
		if out[i].At != out[j].At {
			return out[i].At < out[j].At
		}
		return out[i].Task < out[j].Task
	})
	return out
}

func (n *Net) beh(proto, addr string) Behaviour {
	if d := n.Down.Load(); d != nil {
		return *d
	}
	if b, ok := n.Beh[proto+"!"+addr]; ok {
		return b
	}
	return Behaviour{Kind: "answer"}
}

func (n *Net) LookupCNAME(host string) (string, error) {
	c, ok := n.CNAME[host]
	if !ok {
		return host + ".", nil
	}
	if len(c) > 0 && c[0] == '!' {
		return "", fmt.Errorf("lookup %s: no such host", host)
	}
	return c, nil
}

func (n *Net) Dial(network, address string, timeout time.Duration) (simnet.Session, error) {
	proto := network
	if len(proto) > 3 {
		proto = proto[:3]
	}
	if n.OnDial != nil {
		n.OnDial(proto, address)
	}
	b := n.beh(proto, address)
	if _, ok := n.Resp[address]; !ok && b.Kind != "refuse" && b.Kind != "dialtimeout" {
		// nothing listens there
		b = Behaviour{Kind: "refuse"}
	}
	if proto == "tcp" {
		switch b.Kind {
		case "refuse":
			simrt.SleepNs(n.LatencyNs, "connect "+address)
			n.logEv(NetEvent{Proto: proto, Addr: address, What: "dial-refused"})
			n.fire("refuse")
			return nil, simnet.ErrRefused
		case "dialtimeout":
			d := timeout
			if d <= 0 {
				d = 2 * time.Minute // the operating system's own connect timeout
			}
			simrt.SleepNs(int64(d), "connect-timeout "+address)
			n.logEv(NetEvent{Proto: proto, Addr: address, What: "dial-timeout"})
			n.fire("dialtimeout")
			return nil, fmt.Errorf("i/o timeout")
		}
		simrt.SleepNs(n.LatencyNs, "connect "+address)
	}
	n.logEv(NetEvent{Proto: proto, Addr: address, What: "dial"})
	return &session{n: n, proto: proto, addr: address, b: b}, nil
}

type session struct {
	n     *Net
	proto string
	addr  string
	b     Behaviour
	buf   []byte
}

func (s *session) OnClose() { s.n.logEv(NetEvent{Proto: s.proto, Addr: s.addr, What: "close"}) }

// ReqID identifies the bytes of one request (one transmission or retransmission of it).
func ReqID(b []byte) string { return reqID(b) }

func reqID(b []byte) string {
	var h uint64 = 1469598103934665603
	for _, c := range b {
		h = (h ^ uint64(c)) * 1099511628211
	}
	return fmt.Sprintf("%016x", h)
}

func (s *session) OnWrite(b []byte) (simnet.Plan, error) {
	n := s.n
	var req []byte
	if s.proto == "tcp" {
		s.buf = append(s.buf, b...)
		if len(s.buf) < 4 {
			return simnet.Plan{Then: "silent"}, nil
		}
		l := int(binary.BigEndian.Uint32(s.buf))
		if len(s.buf) < 4+l {
			return simnet.Plan{Then: "silent"}, nil
		}
		req = s.buf[4 : 4+l]
		s.buf = s.buf[4+l:]
	} else {
		req = b
	}
	n.logEv(NetEvent{Proto: s.proto, Addr: s.addr, What: "request", N: len(req), ReqID: reqID(req)})
	lat := n.LatencyNs
	kind := s.b.Kind
	switch kind {
	case "silent", "dialtimeout":
		n.fire("silent")
		return simnet.Plan{Then: "silent"}, nil
	case "refuse": // UDP: the ICMP port-unreachable shows up on the read
		n.fire("refuse")
		return simnet.Plan{Then: "reset"}, nil
	}
	resp := n.Resp[s.addr]
	if resp == nil {
		return simnet.Plan{Then: "reset"}, nil
	}
	var reply []byte
	switch {
	case kind == "krberror" && n.ErrReply != nil:
		reply = n.ErrReply(s.addr, int32(s.b.Arg), req)
		n.fire("krberror")
	case kind == "toobig" && s.proto == "udp" && n.ErrReply != nil:
		reply = n.ErrReply(s.addr, 52, req)
		n.fire("toobig")
	default:
		reply = resp(s.proto, s.addr, req)
	}
	if n.Mangle != nil {
		reply = n.Mangle(s.proto, s.addr, req, reply)
	}
	var prev []byte
	if !n.MultiTask {
		prev = n.Last[s.proto+"!"+s.addr]
		n.Last[s.proto+"!"+s.addr] = reply
	}
	switch kind {
	case "slow":
		lat = s.b.Arg
		n.fire("slow")
	case "stale":
		if prev != nil {
			reply = prev
			n.fire("stale")
		}
	}
	frame := func(r []byte) []byte {
		if s.proto != "tcp" {
			return r
		}
		out := make([]byte, 4, 4+len(r))
		binary.BigEndian.PutUint32(out, uint32(len(r)))
		return append(out, r...)
	}
	stream := frame(reply)
	n.logEv(NetEvent{Proto: s.proto, Addr: s.addr, What: "reply", N: len(reply)})
	switch kind {
	case "close":
		n.fire("close")
		if s.proto != "tcp" {
			return simnet.Plan{Then: "reset"}, nil
		}
		k := int(s.b.Arg)
		if k > len(stream) {
			k = len(stream) - 1
		}
		if k <= 0 {
			return simnet.Plan{Then: "eof"}, nil
		}
		return simnet.Plan{Segs: []simnet.Seg{{DelayNs: lat, Data: stream[:k]}}, Then: "eof"}, nil
	case "fragment":
		if s.proto != "tcp" {
			break
		}
		n.fire("fragment")
		sz := int(s.b.Arg)
		if sz < 1 {
			sz = 1
		}
		var segs []simnet.Seg
		at := lat
		for i := 0; i < len(stream); i += sz {
			e := i + sz
			if e > len(stream) {
				e = len(stream)
			}
			segs = append(segs, simnet.Seg{DelayNs: at, Data: stream[i:e]})
			at += 10_000
			if i >= 12*sz { // after the interesting part deliver the rest in one piece
				segs = append(segs, simnet.Seg{DelayNs: at, Data: stream[e:]})
				break
			}
		}
		return simnet.Plan{Segs: segs, Then: "silent"}, nil
	case "liar":
		n.fire("liar")
		if s.proto == "tcp" {
			out := make([]byte, 4)
			binary.BigEndian.PutUint32(out, uint32(s.b.Arg))
			k := len(reply)
			if k > 16 {
				k = 16
			}
			return simnet.Plan{Segs: []simnet.Seg{{DelayNs: lat, Data: append(out, reply[:k]...)}}, Then: "eof"}, nil
		}
	case "dup":
		n.fire("dup")
		return simnet.Plan{Segs: []simnet.Seg{{DelayNs: lat, Data: stream}, {DelayNs: lat + 1000, Data: stream}}, Then: "silent"}, nil
	}
	return simnet.Plan{Segs: []simnet.Seg{{DelayNs: lat, Data: stream}}, Then: "silent"}, nil
}
