// Package gk holds the helpers that touch gokrb5's API on behalf of several engines: rendering a
// krb5.conf text from a configuration model (parsed by the real parser), building the real
// client from it, and wiring reference KDCs into the simulated network.
package gk

import (
	"fmt"
	"io"
	"log"
	"math/rand"
	"sort"
	"strings"

	"github.com/jcmturner/gokrb5/v8/client"
	"github.com/jcmturner/gokrb5/v8/config"
	"github.com/jcmturner/gokrb5/v8/keytab"

	"verifsim/refkdc"
	"verifsim/refkrb/rk"
	"verifsim/simrt"
	"verifsim/world"
)

// ConfModel is the part of krb5.conf that the engines vary.
func (m ConfModel) etypeSep() string {
	if m.EtypeSep == "" {
		return " "
	}
	return m.EtypeSep
}

type ConfModel struct {
	DefaultRealm   string              `json:"default_realm"`
	TktEtypes      []string            `json:"tkt_etypes,omitempty"` // names as in krb5.conf
	TGSEtypes      []string            `json:"tgs_etypes,omitempty"`
	PreauthTypes   []int               `json:"preauth_types,omitempty"`
	SplitRealms    string              `json:"split_realms,omitempty"` // "" | block | section: a realm with several KDCs is configured in two blocks of the same name (in one or in two [realms] sections)
	EtypeSep       string              `json:"etype_sep,omitempty"`    // separator of the etype lists: "" = one space; krb5.conf also allows commas
	Forwardable    bool                `json:"forwardable,omitempty"`
	Proxiable      bool                `json:"proxiable,omitempty"`
	Canonicalize   bool                `json:"canonicalize,omitempty"`
	NoAddresses    *bool               `json:"noaddresses,omitempty"`
	RenewLifetime  string              `json:"renew_lifetime,omitempty"`
	TicketLifetime string              `json:"ticket_lifetime,omitempty"`
	UDPLimit       int                 `json:"udp_preference_limit,omitempty"`
	ClockskewS     int                 `json:"clockskew,omitempty"`
	Realms         map[string][]string `json:"realms"`                 // realm -> kdc addresses
	DomainRealm    map[string]string   `json:"domain_realm,omitempty"` // domain -> realm
	KPasswd        map[string][]string `json:"kpasswd,omitempty"`      // realm -> kpasswd_server addresses
}

var EtypeNames = map[int]string{16: "des3-cbc-sha1-kd", 17: "aes128-cts-hmac-sha1-96", 18: "aes256-cts-hmac-sha1-96",
	19: "aes128-cts-hmac-sha256-128", 20: "aes256-cts-hmac-sha384-192", 23: "rc4-hmac"}

// Render writes the krb5.conf text.
func (m ConfModel) Render() string {
	var b strings.Builder
	b.WriteString("[libdefaults]\n")
	fmt.Fprintf(&b, "  default_realm = %s\n  dns_lookup_kdc = false\n  dns_lookup_realm = false\n", m.DefaultRealm)
	if len(m.TktEtypes) > 0 {
		fmt.Fprintf(&b, "  default_tkt_enctypes = %s\n", strings.Join(m.TktEtypes, m.etypeSep()))
	}
	if len(m.TGSEtypes) > 0 {
		fmt.Fprintf(&b, "  default_tgs_enctypes = %s\n", strings.Join(m.TGSEtypes, m.etypeSep()))
	}
	if len(m.PreauthTypes) > 0 {
		var s []string
		for _, p := range m.PreauthTypes {
			s = append(s, fmt.Sprint(p))
		}
		fmt.Fprintf(&b, "  preferred_preauth_types = %s\n", strings.Join(s, ", "))
	}
	if m.Forwardable {
		b.WriteString("  forwardable = true\n")
	}
	if m.Proxiable {
		b.WriteString("  proxiable = yes\n")
	}
	if m.Canonicalize {
		b.WriteString("  canonicalize = true\n")
	}
	if m.NoAddresses != nil {
		fmt.Fprintf(&b, "  noaddresses = %v\n", *m.NoAddresses)
	}
	if m.RenewLifetime != "" {
		fmt.Fprintf(&b, "  renew_lifetime = %s\n", m.RenewLifetime)
	}
	if m.TicketLifetime != "" {
		fmt.Fprintf(&b, "  ticket_lifetime = %s\n", m.TicketLifetime)
	}
	if m.UDPLimit != 0 {
		fmt.Fprintf(&b, "  udp_preference_limit = %d\n", m.UDPLimit)
	}
	if m.ClockskewS != 0 {
		fmt.Fprintf(&b, "  clockskew = %d\n", m.ClockskewS)
	}
	b.WriteString("\n[realms]\n")
	var rs []string
	for r := range m.Realms {
		rs = append(rs, r)
	}
	sort.Strings(rs)
	for _, r := range rs {
		kdcs := m.Realms[r]
		if m.SplitRealms != "" && len(kdcs) > 1 {
			// the realm's servers come in two blocks (an appended or included site snippet): the
			// first KDC here, the others in a second block of the same name, in the same or in a
			// second [realms] section
			fmt.Fprintf(&b, "  %s = {\n    kdc = %s\n  }\n", r, kdcs[0])
			kdcs = kdcs[1:]
			if m.SplitRealms == "section" {
				b.WriteString("\n[realms]\n")
			}
		}
		fmt.Fprintf(&b, "  %s = {\n", r)
		for _, k := range kdcs {
			fmt.Fprintf(&b, "    kdc = %s\n", k)
		}
		for _, k := range m.KPasswd[r] {
			fmt.Fprintf(&b, "    kpasswd_server = %s\n", k)
		}
		b.WriteString("  }\n")
	}
	b.WriteString("\n[domain_realm]\n")
	var ds []string
	for d := range m.DomainRealm {
		ds = append(ds, d)
	}
	sort.Strings(ds)
	for _, d := range ds {
		fmt.Fprintf(&b, "  %s = %s\n", d, m.DomainRealm[d])
	}
	return b.String()
}

// Parse renders and parses with the real parser.
func (m ConfModel) Parse() (*config.Config, string, error) {
	txt := m.Render()
	c, err := config.NewFromString(txt)
	return c, txt, err
}

// UserKeytab renders the keytab of a keyed user from the KDC's database and parses it with the
// real parser.
func UserKeytab(k *refkdc.KDC, user string) (*keytab.Keytab, []byte, error) {
	p := k.DB[user]
	if p == nil || p.Keys == nil {
		return nil, nil, fmt.Errorf("no keyed principal %s", user)
	}
	var es []rk.KeytabEntry
	var ets []int
	for et := range p.Keys {
		ets = append(ets, et)
	}
	sort.Ints(ets)
	for _, et := range ets {
		key := p.Keys[et]
		es = append(es, rk.KeytabEntry{Principal: rk.ParseName(user), Realm: k.Realm, Kvno: uint32(key.Kvno), Key: key.Key, Timestamp: 1_500_000_000})
	}
	b := rk.WriteKeytab(es)
	kt := keytab.New()
	if err := kt.Unmarshal(b); err != nil {
		return nil, b, err
	}
	return kt, b, nil
}

// UserKeytabMerged is UserKeytab for a keytab file that is shared, as merged keytabs are: entries of
// other principals of the realm (same number of name components, same encryption types and key
// versions, other keys) stand before and after the user's, with equal or newer time stamps, and
// older key versions of the user itself (older time stamps) are still in the file.  Which of these
// are present, and where, is decided by the bits of variant.
func UserKeytabMerged(k *refkdc.KDC, user string, variant uint64) (*keytab.Keytab, []byte, error) {
	p := k.DB[user]
	if p == nil || p.Keys == nil {
		return nil, nil, fmt.Errorf("no keyed principal %s", user)
	}
	var ets []int
	for et := range p.Keys {
		ets = append(ets, et)
	}
	sort.Ints(ets)
	const ts = 1_500_000_000
	other := func(name string, salt byte, stamp uint32) []rk.KeytabEntry {
		var out []rk.KeytabEntry
		for _, et := range ets {
			key := p.Keys[et]
			kv := make([]byte, len(key.Key.Value))
			for i := range kv {
				kv[i] = key.Key.Value[i] ^ salt ^ byte(i*7+1)
			}
			out = append(out, rk.KeytabEntry{Principal: rk.ParseName(name), Realm: k.Realm, Kvno: uint32(key.Kvno), Key: rk.EncryptionKey{Etype: key.Key.Etype, Value: kv}, Timestamp: stamp})
		}
		return out
	}
	var own, es []rk.KeytabEntry
	for _, et := range ets {
		key := p.Keys[et]
		own = append(own, rk.KeytabEntry{Principal: rk.ParseName(user), Realm: k.Realm, Kvno: uint32(key.Kvno), Key: key.Key, Timestamp: ts})
	}
	oldOwn := other(user, 0x5a, ts-86400) // the user's previous keys: older stamp, previous version
	for i := range oldOwn {
		if oldOwn[i].Kvno > 1 {
			oldOwn[i].Kvno--
		} else {
			oldOwn[i].Kvno = 255
		}
	}
	if variant&1 != 0 {
		es = append(es, other("bob", 0x11, ts)...) // same second (one ktutil run wrote them all)
	}
	if variant&2 != 0 {
		es = append(es, other("zed", 0x22, ts+3600)...) // newer than the user's own
	}
	if variant&4 != 0 {
		es = append(es, oldOwn...)
	}
	es = append(es, own...)
	if variant&8 != 0 {
		es = append(es, other("carol", 0x33, ts+7200)...)
	}
	if variant&16 != 0 && variant&4 == 0 {
		es = append(es, oldOwn...)
	}
	b := rk.WriteKeytab(es)
	kt := keytab.New()
	if err := kt.Unmarshal(b); err != nil {
		return nil, b, err
	}
	return kt, b, nil
}

// Wire attaches a KDC to the addresses in the simulated network.
func Wire(n *world.Net, k *refkdc.KDC, addrs []string, pt func(req []byte) []refkdc.Perturb) {
	k.TaskID = func() int { return simrt.Cur().ID }
	for _, a := range addrs {
		n.Resp[a] = func(proto, addr string, req []byte) []byte {
			var p []refkdc.Perturb
			if pt != nil {
				p = pt(req)
			}
			return k.Handle(req, p)
		}
	}
	prev := n.ErrReply
	n.ErrReply = func(addr string, code int32, req []byte) []byte {
		for _, a := range addrs {
			if a == addr {
				return k.ErrorReply(code, req, nil)
			}
		}
		if prev != nil {
			return prev(addr, code, req)
		}
		return k.ErrorReply(code, req, nil)
	}
}

// Seed pins math/rand's global source (used by gokrb5 to order KDCs).  Needs GODEBUG=randseednop=0.
func Seed(seed uint64) { rand.Seed(int64(seed >> 1)) }

// CaptureLogger returns a logger writing into w.
func CaptureLogger(w io.Writer) *log.Logger { return log.New(w, "", 0) }

// NewKeytabClient builds the real client with keytab credentials.
func NewKeytabClient(user, realm string, kt *keytab.Keytab, cfg *config.Config, opts ...func(*client.Settings)) *client.Client {
	return client.NewWithKeytab(user, realm, kt, cfg, opts...)
}
