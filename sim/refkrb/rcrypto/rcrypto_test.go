package rcrypto

import (
	"bytes"
	"encoding/binary"
	"fmt"
	"math/rand"
	"testing"

	gcrypto "github.com/jcmturner/gokrb5/v8/crypto"
	"github.com/jcmturner/gokrb5/v8/crypto/common"
)

func TestSelfTest(t *testing.T) {
	for _, f := range SelfTest() {
		t.Error(f)
	}
}

func TestTables(t *testing.T) {
	want := map[int][6]int{ // key, seed, confounder, cksum type, cksum size
		16: {24, 21, 8, 12, 20}, 17: {16, 16, 16, 15, 12}, 18: {32, 32, 16, 16, 12},
		19: {16, 16, 16, 19, 16}, 20: {32, 32, 16, 20, 24}, 23: {16, 16, 8, -138, 16},
	}
	for _, et := range AllEtypes {
		w := want[et]
		got := [6]int{KeySize(et), SeedSize(et), ConfounderSize(et), int(ChecksumType(et)), ChecksumSize(et)}
		if got != w || !Supported(et) {
			t.Errorf("etype %d: tables %v, want %v", et, got, w)
		}
		if e, ok := EtypeForChecksum(ChecksumType(et)); !ok || e != et {
			t.Errorf("etype %d: EtypeForChecksum gives %d, %v", et, e, ok)
		}
	}
	if Supported(3) || KeySize(3) != 0 || ChecksumType(3) != 0 {
		t.Error("etype 3 must be unsupported")
	}
	if _, ok := EtypeForChecksum(7); ok {
		t.Error("checksum type 7 must be unknown")
	}
}

var diffUsages = []uint32{1, 2, 3, 7, 8, 9, 11, 12, 13, 22, 24}

// mismatch collects disagreements compactly: one line per (etype, kind, usage).
type mismatch struct {
	t    *testing.T
	seen map[string]int
}

func (m *mismatch) add(et int, kind string, usage uint32, detail string) {
	k := fmt.Sprintf("etype %d %s usage %d", et, kind, usage)
	if m.seen[k] == 0 {
		m.t.Errorf("%s: %s", k, detail)
	}
	m.seen[k]++
}

func TestDifferentialGokrb5(t *testing.T) {
	rng := rand.New(rand.NewSource(20260925))
	mm := &mismatch{t: t, seen: map[string]int{}}
	for _, et := range AllEtypes {
		g, err := gcrypto.GetEtype(int32(et))
		if err != nil {
			t.Fatalf("gokrb5 has no etype %d: %v", et, err)
		}
		if g.GetConfounderByteSize() != ConfounderSize(et) || g.GetHashID() != ChecksumType(et) || g.GetHMACBitLength()/8 != ChecksumSize(et) {
			t.Errorf("etype %d: sizes differ: gokrb5 conf %d hash %d mac %d", et,
				g.GetConfounderByteSize(), g.GetHashID(), g.GetHMACBitLength()/8)
		}
		if g.GetKeyByteSize() != KeySize(et) {
			if et != AES256S2 { // known: see TestKnownDisagreements
				t.Errorf("etype %d: key size: gokrb5 %d, ref %d", et, g.GetKeyByteSize(), KeySize(et))
			}
		}
		for round := 0; round < 3; round++ {
			seed := make([]byte, SeedSize(et))
			rng.Read(seed)
			key, err := RandomToKey(et, seed)
			if err != nil {
				t.Fatal(err)
			}
			if gk := g.RandomToKey(seed); !bytes.Equal(gk, key) && et != RC4 { // rc4 known: see TestKnownDisagreements
				t.Errorf("etype %d: random-to-key(%x): gokrb5 %x, ref %x", et, seed, gk, key)
			}
			for _, usage := range diffUsages {
				if et != RC4 {
					for _, f := range []func(uint32) []byte{common.GetUsageKc, common.GetUsageKe, common.GetUsageKi} {
						c := f(usage)
						gk, gerr := g.DeriveKey(key, c)
						rk, rerr := usageKey(et, key, usage, c[4])
						if gerr != nil || rerr != nil || !bytes.Equal(gk, rk) {
							mm.add(et, fmt.Sprintf("derive %#x", c[4]), usage, fmt.Sprintf("gokrb5 %x (%v), ref %x (%v)", gk, gerr, rk, rerr))
						}
					}
				}
				for n := 0; n <= 80; n++ {
					msg := make([]byte, n)
					rng.Read(msg)
					padded := msg
					if et == DES3 {
						padded = append(append([]byte(nil), msg...), make([]byte, (8-n%8)%8)...)
					}
					// gokrb5 encrypts, reference decrypts.
					_, gct, err := g.EncryptMessage(key, msg, usage)
					if err != nil {
						mm.add(et, "gokrb5 encrypt", usage, err.Error())
					} else if pt, err := Decrypt(et, key, usage, gct); err != nil || !bytes.Equal(pt, padded) {
						mm.add(et, "gokrb5->ref", usage, fmt.Sprintf("len %d: %x, %v", n, pt, err))
					}
					// reference encrypts, gokrb5 decrypts.
					conf := make([]byte, ConfounderSize(et))
					rng.Read(conf)
					rct, err := Encrypt(et, key, usage, msg, conf)
					if err != nil {
						t.Fatalf("etype %d: ref encrypt: %v", et, err)
					}
					if err == nil && gct != nil && len(rct) != len(gct) {
						mm.add(et, "ciphertext length", usage, fmt.Sprintf("len %d: gokrb5 %d, ref %d", n, len(gct), len(rct)))
					}
					if pt, err := g.DecryptMessage(key, rct, usage); err != nil || !bytes.Equal(pt, padded) {
						mm.add(et, "ref->gokrb5", usage, fmt.Sprintf("len %d: %x, %v", n, pt, err))
					}
					// checksums
					gck, gerr := g.GetChecksumHash(key, msg, usage)
					rck, rerr := Checksum(et, key, usage, msg)
					if gerr != nil || rerr != nil || !bytes.Equal(gck, rck) {
						mm.add(et, "checksum", usage, fmt.Sprintf("len %d: gokrb5 %x (%v), ref %x (%v)", n, gck, gerr, rck, rerr))
					} else if !g.VerifyChecksum(key, msg, rck, usage) || !VerifyChecksum(et, key, usage, msg, gck) {
						mm.add(et, "verify checksum", usage, fmt.Sprintf("len %d", n))
					}
				}
			}
		}
	}
	for k, n := range mm.seen {
		t.Logf("%s: %d mismatching cases", k, n)
	}
}

func TestDifferentialStringToKey(t *testing.T) {
	cases := []struct{ pw, salt string }{
		{"password", "ATHENA.MIT.EDUraeburn"},
		{"passwordvalue", "TEST.GOKRB5testuser1"},
		{"", "EXAMPLE.COMempty"},
		{"correct horse battery staple", ""},
		{"p", "R"},
		{"a much longer pass phrase than any hash block size, just to be sure: " + x64 + x64, "REALM.EXAMPLE.ORGhostsome.host.example.org"},
	}
	for _, et := range AllEtypes {
		g, _ := gcrypto.GetEtype(int32(et))
		for _, c := range cases {
			for _, iter := range []uint32{0, 1, 3, 100} {
				var rp []byte
				gp := g.GetDefaultStringToKeyParams()
				if iter != 0 {
					rp = binary.BigEndian.AppendUint32(nil, iter)
					gp = common.IterationsToS2Kparams(iter)
				}
				if (et == DES3 || et == RC4) && iter != 0 {
					continue
				}
				gk, gerr := g.StringToKey(c.pw, c.salt, gp)
				rk, rerr := StringToKey(et, c.pw, c.salt, rp)
				if gerr != nil || rerr != nil || !bytes.Equal(gk, rk) {
					t.Errorf("etype %d s2k(%q,%q,%d): gokrb5 %x (%v), ref %x (%v)", et, c.pw, c.salt, iter, gk, gerr, rk, rerr)
				}
			}
		}
	}
}

// TestKnownDisagreements documents where gokrb5 deviates from the RFCs. The
// reference keeps the RFC behaviour (cross-checked against OpenJDK, see
// jdkVectors); the state of each deviation is logged, not asserted, so that a
// fixed gokrb5 does not break this test.
func TestKnownDisagreements(t *testing.T) {
	report := func(name string, present bool, detail string) {
		state := "PRESENT"
		if !present {
			state = "not present"
		}
		t.Logf("gokrb5 deviation %q: %s. %s", name, state, detail)
	}
	// 1. RFC 8009 section 5: aes256-cts-hmac-sha384-192 has a 256-bit protocol key (192 bits is Kc/Ki).
	g20, _ := gcrypto.GetEtype(AES256S2)
	report("etype 20 key size", g20.GetKeyByteSize() != 32,
		fmt.Sprintf("GetKeyByteSize()=%d, GetKeySeedBitLength()=%d; RFC 8009: 32 bytes / 256 bits. The reference rejects 24-byte keys for etype 20.",
			g20.GetKeyByteSize(), g20.GetKeySeedBitLength()))
	if _, err := Encrypt(AES256S2, make([]byte, 24), 1, nil, make([]byte, 16)); err == nil {
		t.Error("reference accepted a 24-byte key for etype 20")
	}
	// 2. rc4-hmac random-to-key is the identity (any 128-bit string is a key); gokrb5 hashes it with MD4.
	g23, _ := gcrypto.GetEtype(RC4)
	seed := []byte("0123456789abcdef")
	report("rc4 random-to-key", !bytes.Equal(g23.RandomToKey(seed), seed), fmt.Sprintf("RandomToKey(%x)=%x; expected identity.", seed, g23.RandomToKey(seed)))
	// 3. RFC 4757: the usage/message type enters the HMAC as 4 little-endian bytes. gokrb5 uses a
	// varint encoding, which differs from 128 upwards and cannot represent 2^28 and above in 4 bytes.
	key := unhex("ac8e657f83df82beea5d43bdaf7800cc")
	msg := []byte("usage encoding")
	for _, usage := range []uint32{23, 127, 128, 255, 1024, 1 << 28} {
		rct, _ := Encrypt(RC4, key, usage, msg, seed[:8])
		rck, _ := Checksum(RC4, key, usage, msg)
		var status string
		func() {
			defer func() {
				if r := recover(); r != nil {
					status = fmt.Sprint("gokrb5 panics: ", r)
				}
			}()
			pt, err := g23.DecryptMessage(key, rct, usage)
			gck, _ := g23.GetChecksumHash(key, msg, usage)
			status = fmt.Sprintf("ref->gokrb5 decrypt ok=%v, checksum equal=%v", err == nil && bytes.Equal(pt, msg), bytes.Equal(gck, rck))
		}()
		report(fmt.Sprintf("rc4 usage %d encoding", usage), status != "ref->gokrb5 decrypt ok=true, checksum equal=true", status)
	}
}

func TestDecryptGarbageNeverPanics(t *testing.T) {
	rng := rand.New(rand.NewSource(7))
	for _, et := range AllEtypes {
		key, _ := RandomToKey(et, make([]byte, SeedSize(et)))
		for n := 0; n <= 130; n++ {
			b := make([]byte, n)
			rng.Read(b)
			if pt, err := Decrypt(et, key, 2, b); err == nil {
				t.Errorf("etype %d: %d random bytes decrypted to %x", et, n, pt)
			}
		}
		for _, k := range [][]byte{nil, key[1:], append(key[:len(key):len(key)], 0)} {
			if _, err := Decrypt(et, k, 2, make([]byte, 64)); err == nil {
				t.Errorf("etype %d: key of %d bytes accepted", et, len(k))
			}
			if _, err := Checksum(et, k, 2, nil); err == nil {
				t.Errorf("etype %d: checksum key of %d bytes accepted", et, len(k))
			}
		}
	}
	if _, err := Decrypt(1, make([]byte, 8), 2, make([]byte, 64)); err == nil {
		t.Error("etype 1 accepted")
	}
}
