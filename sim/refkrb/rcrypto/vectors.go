package rcrypto

import (
	"bytes"
	"crypto/sha1"
	"encoding/binary"
	"encoding/hex"
	"fmt"
)

// Known-answer vectors. Sources: RFC 3961 appendix A (n-fold, DES3 DR/DK, des3
// string-to-key), RFC 3962 appendix B (PBKDF2, string-to-key, CTS), RFC 8009
// appendix A (everything), RFC 4757 (string-to-key), RFC 6070 (PBKDF2), and a
// keytab written by MIT ktutil for "passwordvalue" / testuser1@TEST.GOKRB5.

var nfoldVectors = []struct {
	in   string
	bits int
	out  string
}{
	{"012345", 64, "be072631276b1955"},
	{"password", 56, "78a07b6caf85fa"},
	{"Rough Consensus, and Running Code", 64, "bb6ed30870b7f0e0"},
	{"password", 168, "59e4a8ca7c0385c3c37b3f6d2000247cb6e6bd5b3e"},
	{"MASSACHVSETTS INSTITVTE OF TECHNOLOGY", 192, "db3b0d8f0b061e603282b308a50841229ad798fab9540c1b"},
	{"Q", 168, "518a54a215a8452a518a54a215a8452a518a54a215"},
	{"ba", 168, "fb25d531ae8974499f52fd92ea9857c4ba24cf297e"},
	{"kerberos", 64, "6b65726265726f73"},
	{"kerberos", 128, "6b65726265726f737b9b5b2b93132b93"},
	{"kerberos", 168, "8372c236344e5f1550cd0747e15d62ca7a5a3bcea4"},
	{"kerberos", 256, "6b65726265726f737b9b5b2b93132b935c9bdcdad95c9899c4cae4dee6d6cae4"},
}

// RFC 3961 A.3: key, constant, DK(key, constant); DR is DK with parity stripped.
var des3DKVectors = [][3]string{
	{"dce06b1f64c857a11c3db57c51899b2cc1791008ce973b92", "0000000155", "925179d04591a79b5d3192c4a7e9c289b049c71f6ee604cd"},
	{"5e13d31c70ef765746578531cb51c15bf11ca82c97cee9f2", "00000001aa", "9e58e5a146d9942a101c469845d67a20e3c4259ed913f207"},
	{"98e6fd8a04a4b6859b75a176540b9752bad3ecd610a252bc", "0000000155", "13fef80d763e94ec6d13fd2ca1d085070249dad39808eabf"},
	{"622aec25a2fe2cad7094680b7c64940280084c1a7cec92b5", "00000001aa", "f8dfbf04b097e6d9dc0702686bcb3489d91fd9a4516b703e"},
	{"d3f8298ccb166438dcb9b93ee5a7629286a491f838f802fb", "6b65726265726f73", "2370da575d2a3da864cebfdc5204d56df779a7df43d9da43"},
	{"c1081649ada74362e6a1459d01dfd30d67c2234c940704da", "0000000155", "348057ec98fdc48016161c2a4c7a943e92ae492c989175f7"},
	{"5d154af238f46713155719d55e2f1f790dd661f279a7917c", "00000001aa", "a8808ac267dada3dcbe9a7c84626fbc761c294b01315e5c1"},
	{"798562e049852f57dc8c343ba17f2ca1d97394efc8adc443", "0000000155", "c813f88a3be3b334f75425ce9175fbe3c8493b89c8703b49"},
	{"26dce334b545292f2feab9a8701a89a4b99eb9942cecd016", "00000001aa", "f48ffd6e83f83e7354e694fd252cf83bfe58f7d5ba37ec5d"},
}

type s2kVector struct {
	etype    int
	iter     uint32 // 0: default (nil s2kparams)
	pw, salt string
	key      string
}

const (
	gclef     = "\U0001D11E"
	binSalt   = "\x12\x34\x56\x78\x78\x56\x34\x12"
	x64       = "XXXXXXXXXXXXXXXXXXXXXXXXXXXXXXXXXXXXXXXXXXXXXXXXXXXXXXXXXXXXXXXX"
	rfc8009sa = "\x10\xDF\x9D\xD7\x83\xE5\xBC\x8A\xCE\xA1\x73\x0E\x74\x35\x5F\x61ATHENA.MIT.EDUraeburn"
	mitSalt   = "TEST.GOKRB5testuser1"
)

var s2kVectors = []s2kVector{
	// RFC 3961 A.4
	{DES3, 0, "password", "ATHENA.MIT.EDUraeburn", "850bb51358548cd05e86768c313e3bfef7511937dcf72c3e"},
	{DES3, 0, "potatoe", "WHITEHOUSE.GOVdanny", "dfcd233dd0a43204ea6dc437fb15e061b02979c1f74f377a"},
	{DES3, 0, "penny", "EXAMPLE.COMbuckaroo", "6d2fcdf2d6fbbc3ddcadb5da5710a23489b0d3b69d5d9d4a"},
	{DES3, 0, "ß", "ATHENA.MIT.EDUJurišić", "16d5a40e1ce3bacb61b9dce00470324c831973a7b952feb0"},
	{DES3, 0, gclef, "EXAMPLE.COMpianist", "85763726585dbc1cce6ec43e1f751f07f1c4cbb098f40b19"},
	// RFC 3962 B
	{AES128, 1, "password", "ATHENA.MIT.EDUraeburn", "42263c6e89f4fc28b8df68ee09799f15"},
	{AES128, 2, "password", "ATHENA.MIT.EDUraeburn", "c651bf29e2300ac27fa469d693bdda13"},
	{AES128, 1200, "password", "ATHENA.MIT.EDUraeburn", "4c01cd46d632d01e6dbe230a01ed642a"},
	{AES128, 5, "password", binSalt, "e9b23d52273747dd5c35cb55be619d8e"},
	{AES128, 1200, x64, "pass phrase equals block size", "59d1bb789a828b1aa54ef9c2883f69ed"},
	{AES128, 1200, x64 + "X", "pass phrase exceeds block size", "cb8005dc5f90179a7f02104c0018751d"},
	{AES128, 50, gclef, "EXAMPLE.COMpianist", "f149c1f2e154a73452d43e7fe62a56e5"},
	{AES256, 1, "password", "ATHENA.MIT.EDUraeburn", "fe697b52bc0d3ce14432ba036a92e65bbb52280990a2fa27883998d72af30161"},
	{AES256, 2, "password", "ATHENA.MIT.EDUraeburn", "a2e16d16b36069c135d5e9d2e25f896102685618b95914b467c67622225824ff"},
	{AES256, 1200, "password", "ATHENA.MIT.EDUraeburn", "55a6ac740ad17b4846941051e1e8b0a7548d93b0ab30a8bc3ff16280382b8c2a"},
	{AES256, 5, "password", binSalt, "97a4e786be20d81a382d5ebc96d5909cabcdadc87ca48f574504159f16c36e31"},
	{AES256, 1200, x64, "pass phrase equals block size", "89adee3608db8bc71f1bfbfe459486b05618b70cbae22092534e56c553ba4b34"},
	{AES256, 1200, x64 + "X", "pass phrase exceeds block size", "d78c5c9cb872a8c9dad4697f0bb5b2d21496c82beb2caeda2112fceea057401b"},
	{AES256, 50, gclef, "EXAMPLE.COMpianist", "4b6d9839f84406df1f09cc166db4b83c571848b784a3d6bdc346589a3e393f9e"},
	// RFC 8009 A
	{AES128S2, 32768, "password", rfc8009sa, "089bca48b105ea6ea77ca5d2f39dc5e7"},
	{AES256S2, 32768, "password", rfc8009sa, "45bd806dbf6a833a9cffc1c94589a222367a79bc21c413718906e9f578a78467"},
	// RFC 4757
	{RC4, 0, "foo", "ignored", "ac8e657f83df82beea5d43bdaf7800cc"},
	// MIT ktutil keytab, default parameters
	{DES3, 0, "passwordvalue", mitSalt, "4580fb91760dabe6f808c22c26494f644cb35d61d32c79e3"},
	{AES128, 0, "passwordvalue", mitSalt, "698c4df8e9f60e7eea5a21bf4526ad25"},
	{AES256, 0, "passwordvalue", mitSalt, "bbdc430aab7e2d4622a0b6951481453b0962e9db8e2f168942ad175cda6d9de9"},
	{AES128S2, 0, "passwordvalue", mitSalt, "2eb8501967a7886e1f0c63ac9be8c4a0"},
	{AES256S2, 0, "passwordvalue", mitSalt, "8ad66f209bb07daa186f8a229830f5ba06a3a2a33638f4ec66e1d29324e417ee"},
	{RC4, 0, "passwordvalue", mitSalt, "084768c373663b3bef1f6385883cf7ff"},
}

// PBKDF2-HMAC-SHA1: RFC 3962 B (32 bytes) and RFC 6070 (20 bytes).
var pbkdf2Vectors = []struct {
	pw, salt string
	iter     int
	out      string
}{
	{"password", "ATHENA.MIT.EDUraeburn", 1, "cdedb5281bb2f801565a1122b25635150ad1f7a04bb9f3a333ecc0e2e1f70837"},
	{"password", "ATHENA.MIT.EDUraeburn", 2, "01dbee7f4a9e243e988b62c73cda935da05378b93244ec8f48a99e61ad799d86"},
	{"password", "ATHENA.MIT.EDUraeburn", 1200, "5c08eb61fdf71e4e4ec3cf6ba1f5512ba7e52ddbc5e5142f708a31e2e62b1e13"},
	{"password", binSalt, 5, "d1daa78615f287e6a1c8b120d7062a493f98d203e6be49a6adf4fa574b6e64ee"},
	{x64, "pass phrase equals block size", 1200, "139c30c0966bc32ba55fdbf212530ac9c5ec59f1a452f5cc9ad940fea0598ed1"},
	{x64 + "X", "pass phrase exceeds block size", 1200, "9ccad6d468770cd51b10e6a68721be611a8b4d282601db3b36be9246915ec82a"},
	{gclef, "EXAMPLE.COMpianist", 50, "6b9cf26d45455a43a5b8bb276a403b39e7fe37a0c41e02c281ff3069e1e94f52"},
	{"password", "salt", 1, "0c60c80f961f0e71f3a9b524af6012062fe037a6"},
	{"password", "salt", 2, "ea6c014dc72d6f8ccd1ed92ace1d41f0d8de8957"},
	{"password", "salt", 4096, "4b007901b765489abead49d926f721d065a429c1"},
}

// RFC 3962 B: AES-128 CBC-CTS, key "chicken teriyaki", zero IV, prefixes of ctsText.
const (
	ctsKey  = "636869636b656e207465726979616b69"
	ctsText = "I would like the General Gau's Chicken, please, and wonton soup."
)

var ctsVectors = []struct {
	n   int
	out string
}{
	{17, "c6353568f2bf8cb4d8a580362da7ff7f97"},
	{31, "fc00783e0efdb2c1d445d4c8eff7ed2297687268d6ecccc0c07b25e25ecfe5"},
	{32, "39312523a78662d5be7fcbcc98ebf5a897687268d6ecccc0c07b25e25ecfe584"},
	{47, "97687268d6ecccc0c07b25e25ecfe584b3fffd940c16a18c1b5549d2f838029e39312523a78662d5be7fcbcc98ebf5"},
	{48, "97687268d6ecccc0c07b25e25ecfe5849dad8bbb96c4cdc03bc103e1a194bbd839312523a78662d5be7fcbcc98ebf5a8"},
	{64, "97687268d6ecccc0c07b25e25ecfe58439312523a78662d5be7fcbcc98ebf5a84807efe836ee89a526730dbc2f7bc8409dad8bbb96c4cdc03bc103e1a194bbd8"},
}

// RFC 8009 A: key derivation, checksum and encryption, all with usage 2.
var rfc8009Vectors = []struct {
	etype          int
	key            string
	kc, ke, ki     string
	cksumIn, cksum string
	enc            [][3]string // plaintext, confounder, ciphertext
}{
	{AES128S2, "3705d96080c17728a0e800eab6e0d23c",
		"b31a018a48f54776f403e9a396325dc3", "9b197dd1e8c5609d6e67c3e37c62c72e", "9fda0e56ab2d85e1569a688696c26a6c",
		"000102030405060708090a0b0c0d0e0f1011121314", "d78367186643d67b411cba9139fc1dee",
		[][3]string{
			{"", "7e5895eaf2672435bad817f545a37148", "ef85fb890bb8472f4dab20394dca781dad877eda39d50c870c0d5a0a8e48c718"},
			{"000102030405", "7bca285e2fd4130fb55b1a5c83bc5b24", "84d7f30754ed987bab0bf3506beb09cfb55402cef7e6877ce99e247e52d16ed4421dfdf8976c"},
			{"000102030405060708090a0b0c0d0e0f", "56ab21713ff62c0a1457200f6fa9948f", "3517d640f50ddc8ad3628722b3569d2ae07493fa8263254080ea65c1008e8fc295fb4852e7d83e1e7c48c37eebe6b0d3"},
			{"000102030405060708090a0b0c0d0e0f1011121314", "a7a4e29a4728ce10664fb64e49ad3fac", "720f73b18d9859cd6ccb4346115cd336c70f58edc0c4437c5573544c31c813bce1e6d072c186b39a413c2f92ca9b8334a287ffcbfc"},
		}},
	{AES256S2, "6d404d37faf79f9df0d33568d320669800eb4836472ea8a026d16b7182460c52",
		"ef5718be86cc84963d8bbb5031e9f5c4ba41f28faf69e73d", "56ab22bee63d82d7bc5227f6773f8ea7a5eb1c825160c38312980c442e5c7e49", "69b16514e3cd8e56b82010d5c73012b622c4d00ffc23ed1f",
		"000102030405060708090a0b0c0d0e0f1011121314", "45ee791567eefca37f4ac1e0222de80d43c3bfa06699672a",
		[][3]string{
			{"", "f764e9fa15c276478b2c7d0c4e5f58e4", "41f53fa5bfe7026d91faf9be959195a058707273a96a40f0a01960621ac612748b9bbfbe7eb4ce3c"},
			{"000102030405", "b80d3251c1f6471494256ffe712d0b9a", "4ed7b37c2bcac8f74f23c1cf07e62bc7b75fb3f637b9f559c7f664f69eab7b6092237526ea0d1f61cb20d69d10f2"},
			{"000102030405060708090a0b0c0d0e0f", "53bf8a0d105265d4e276428624ce5e63", "bc47ffec7998eb91e8115cf8d19dac4bbbe2e163e87dd37f49beca92027764f68cf51f14d798c2273f35df574d1f932e40c4ff255b36a266"},
			{"000102030405060708090a0b0c0d0e0f1011121314", "763e65367e864f02f55153c7e3b58af1", "40013e2df58e8751957d2878bcd2d6fe101ccfd556cb1eae79db3c3ee86429f2b2a602ac86fef6ecb647d6295fae077a1feb517508d2c16b4192e01f62"},
		}},
}

// Cross-implementation vectors produced with OpenJDK 17 (sun.security.krb5.internal.crypto)
// for the etypes whose RFCs give no full encryption example. The keys are the
// RFC string-to-key results above; the confounders were random, so these are
// decrypt and checksum known answers. The rc4 ones cover the usage translation
// (3 and 9 -> 8, 23 -> 13) and a usage above 255 (4-byte little-endian encoding).
const jdkPlain = "Kerberos reference vector (37 bytes)."

var jdkKeys = map[int]string{
	16: "850bb51358548cd05e86768c313e3bfef7511937dcf72c3e",
	17: "42263c6e89f4fc28b8df68ee09799f15",
	18: "fe697b52bc0d3ce14432ba036a92e65bbb52280990a2fa27883998d72af30161",
	23: "ac8e657f83df82beea5d43bdaf7800cc",
}

var jdkVectors = []struct {
	etype  int
	usage  uint32
	cipher string
	cksum  string
}{
	{16, 7, "89a69caa04d53274d545fcf3da05e765cc687737695b572ae47d8c1acf7615ff9170974d082453bc8bf22334d151e8c2b5796b3820097eb72d103035c58da02cffd47828",
		"7bb8f0b63c48f711727f3ee18d5c2016ef601aa0"},
	{17, 7, "f6b2b3c87b033b9af17424d7056286692051b49c9a1db2fbeb372fd4cc819f16f63ee1c185d3ec2fed6208db64c1721fab8cadd163fec5ce58a08e7dd8f2edcf6b",
		"0ac633e333a1de4eeecebb6e"},
	{18, 7, "d05b7c7491077dbeebe96fdce692e0568de1baee03a23023529baac63c562a003cb8c79bcbcc46dd0ee77a43455bba637d126317e4e4586ced427689265dc72388",
		"d6b741d3fab9636cfef7840b"},
	{23, 3, "596988a6df5ec07958b450a7dabb42e282a37588aa0d43229550567cc6ff2817ed12e53b5db75e33912deb2af7c235a04a464cab097f926b1e359f519a",
		"2b3346b5ad2cf744b16a9a662e9c74e1"},
	{23, 7, "1d6e6fa4a67680d37b350149f9484b7d10e8508f2d2fb7c4018104214dd74e043412466bd9d9d1fb1c84384aa002919422e8317b60fdde6acdb584b6b4",
		"898b9297dc03630a3a6fc99bbf4f97aa"},
	{23, 9, "2cfd87787abeb97c3cb878a8b848d8c7ea428c38914e68482650b11773274c378276e6a6e5e502e62d8d733293dabdb428ef03f76f6af64b942e505ba4",
		"2b3346b5ad2cf744b16a9a662e9c74e1"},
	{23, 23, "c8da3df2ff645352acd7b8f78a86f6bef7fa9835209f3d748ca13e0357a9c963ce9a71ba45d9600412e6f6745b5e2d2cf2d7d21f02da7070752f573eb4",
		"b3b8bc5e095a8ef12883f8265f10b6ba"},
	{23, 1024, "b92836bfef8a5f95783c5c14c365a4b40c26783d32259f54f87cb22174c5631781661e239c63f6a1e80b09883ffa0b1c9ed951a5e44bc9cb1b9960d1e5",
		"c4de875178b178b84b6d4900d2569248"},
}

func unhex(s string) []byte {
	b, err := hex.DecodeString(s)
	if err != nil {
		panic("rcrypto: bad embedded vector " + s)
	}
	return b
}

// SelfTest runs the embedded known-answer vectors and generic round-trip and
// rejection checks. It returns one message per failure; empty means OK.
func SelfTest() (fails []string) {
	defer func() {
		if r := recover(); r != nil {
			fails = append(fails, fmt.Sprint("panic: ", r))
		}
	}()
	failf := func(format string, a ...any) { fails = append(fails, fmt.Sprintf(format, a...)) }
	eq := func(got []byte, err error, want, format string, a ...any) {
		if err != nil || hex.EncodeToString(got) != want {
			failf("%s: got %x (err %v), want %s", fmt.Sprintf(format, a...), got, err, want)
		}
	}

	for _, v := range nfoldVectors {
		eq(Nfold([]byte(v.in), v.bits), nil, v.out, "%d-fold(%q)", v.bits, v.in)
	}
	for _, v := range pbkdf2Vectors {
		eq(PBKDF2(sha1.New, []byte(v.pw), []byte(v.salt), v.iter, len(v.out)/2), nil, v.out, "pbkdf2(%q,%q,%d)", v.pw, v.salt, v.iter)
	}
	for _, v := range des3DKVectors {
		dk, err := DK(DES3, unhex(v[0]), unhex(v[1]))
		eq(dk, err, v[2], "des3 DK(%s,%s)", v[0], v[1])
	}
	for k := range weakDESKeys { // weak key as it would come out of random-to-key
		seed := make([]byte, 7)
		for i := range seed {
			seed[i] = k[i]&^1 | k[7]>>uint(i+1)&1
		}
		fixed := []byte(k)
		fixed[7] ^= 0xF0
		got, err := RandomToKey(DES3, bytes.Repeat(seed, 3))
		eq(got, err, hex.EncodeToString(bytes.Repeat(fixed, 3)), "des3 weak key fix %x", k)
	}
	for _, v := range s2kVectors {
		var params []byte
		if v.iter != 0 {
			params = binary.BigEndian.AppendUint32(nil, v.iter)
		}
		k, err := StringToKey(v.etype, v.pw, v.salt, params)
		eq(k, err, v.key, "string-to-key(%d,%q,%q,%d)", v.etype, v.pw, v.salt, v.iter)
	}
	for _, v := range ctsVectors {
		ct := ctsEncrypt(unhex(ctsKey), []byte(ctsText[:v.n]))
		eq(ct, nil, v.out, "cts encrypt %d", v.n)
		eq(ctsDecrypt(unhex(ctsKey), unhex(v.out)), nil, hex.EncodeToString([]byte(ctsText[:v.n])), "cts decrypt %d", v.n)
	}
	for _, v := range rfc8009Vectors {
		key := unhex(v.key)
		for _, d := range []struct {
			kind byte
			want string
		}{{0x99, v.kc}, {0xAA, v.ke}, {0x55, v.ki}} {
			k, err := usageKey(v.etype, key, 2, d.kind)
			eq(k, err, d.want, "rfc8009 etype %d derive %#x", v.etype, d.kind)
		}
		ck, err := Checksum(v.etype, key, 2, unhex(v.cksumIn))
		eq(ck, err, v.cksum, "rfc8009 etype %d checksum", v.etype)
		for _, e := range v.enc {
			ct, err := Encrypt(v.etype, key, 2, unhex(e[0]), unhex(e[1]))
			eq(ct, err, e[2], "rfc8009 etype %d encrypt %q", v.etype, e[0])
			pt, err := Decrypt(v.etype, key, 2, unhex(e[2]))
			eq(pt, err, e[0], "rfc8009 etype %d decrypt %q", v.etype, e[0])
		}
	}
	for _, v := range jdkVectors {
		key, want := unhex(jdkKeys[v.etype]), []byte(jdkPlain)
		if v.etype == DES3 {
			want = append(want, make([]byte, (8-len(want)%8)%8)...)
		}
		pt, err := Decrypt(v.etype, key, v.usage, unhex(v.cipher))
		eq(pt, err, hex.EncodeToString(want), "jdk etype %d usage %d decrypt", v.etype, v.usage)
		ck, err := Checksum(v.etype, key, v.usage, []byte(jdkPlain))
		eq(ck, err, v.cksum, "jdk etype %d usage %d checksum", v.etype, v.usage)
		if alias := map[uint32]uint32{3: 8, 9: 8, 23: 13}[v.usage]; v.etype == RC4 && alias != 0 {
			pt, err = Decrypt(RC4, key, alias, unhex(v.cipher))
			eq(pt, err, hex.EncodeToString(want), "jdk rc4 usage %d decrypt as %d", v.usage, alias)
		}
	}
	for _, et := range AllEtypes {
		fails = append(fails, selfTestGeneric(et)...)
	}
	return fails
}

// selfTestGeneric checks round trips for plaintext lengths 0..64, rejection of
// flipped bits, wrong usages, wrong keys and truncated input, for one etype.
func selfTestGeneric(et int) (fails []string) {
	failf := func(format string, a ...any) {
		fails = append(fails, fmt.Sprintf("etype %d: ", et)+fmt.Sprintf(format, a...))
	}
	pattern := func(n, mul, add int) []byte {
		b := make([]byte, n)
		for i := range b {
			b[i] = byte(i*mul + add)
		}
		return b
	}
	key, err := RandomToKey(et, pattern(SeedSize(et), 37, 11))
	if err != nil || len(key) != KeySize(et) {
		return []string{fmt.Sprintf("etype %d: random-to-key: %x, %v", et, key, err)}
	}
	key2, _ := RandomToKey(et, pattern(SeedSize(et), 41, 3))
	const usage, otherUsage = 7, 11
	minLen := ConfounderSize(et) + ChecksumSize(et)
	for n := 0; n <= 64; n++ {
		msg := pattern(n, 5, n)
		ct, err := Encrypt(et, key, usage, msg, pattern(ConfounderSize(et), 13, n))
		if err != nil {
			failf("encrypt len %d: %v", n, err)
			continue
		}
		want := msg
		if et == DES3 {
			want = append(append([]byte(nil), msg...), make([]byte, (8-n%8)%8)...)
		}
		if len(ct) != minLen+len(want) {
			failf("ciphertext length %d for plaintext length %d", len(ct), n)
		}
		if pt, err := Decrypt(et, key, usage, ct); err != nil || !bytes.Equal(pt, want) {
			failf("round trip len %d: %x, %v", n, pt, err)
		}
		for _, bit := range []int{0, (n * 29) % (len(ct) * 8), len(ct)*8 - 1} {
			bad := append([]byte(nil), ct...)
			bad[bit/8] ^= 0x80 >> uint(bit%8)
			if _, err := Decrypt(et, key, usage, bad); err == nil {
				failf("len %d: flipped bit %d accepted", n, bit)
			}
		}
		if _, err := Decrypt(et, key, otherUsage, ct); err == nil {
			failf("len %d: wrong usage accepted", n)
		}
		if _, err := Decrypt(et, key2, usage, ct); err == nil {
			failf("len %d: wrong key accepted", n)
		}
		if _, err := Decrypt(et, key, usage, ct[:len(ct)-1]); err == nil {
			failf("len %d: truncated ciphertext accepted", n)
		}
		ck, err := Checksum(et, key, usage, msg)
		if err != nil || len(ck) != ChecksumSize(et) || !VerifyChecksum(et, key, usage, msg, ck) {
			failf("checksum len %d: %x, %v", n, ck, err)
			continue
		}
		ck[n%len(ck)] ^= 1
		if VerifyChecksum(et, key, usage, msg, ck) {
			failf("checksum len %d: flipped bit accepted", n)
		}
		ck[n%len(ck)] ^= 1
		if VerifyChecksum(et, key, otherUsage, msg, ck) || VerifyChecksum(et, key2, usage, msg, ck) ||
			VerifyChecksum(et, key, usage, append(msg, 0), ck) || VerifyChecksum(et, key, usage, msg, ck[:len(ck)-1]) {
			failf("checksum len %d: wrong usage/key/data/length accepted", n)
		}
	}
	for n := 0; n < minLen; n++ { // too short: error, never a panic
		if _, err := Decrypt(et, key, usage, make([]byte, n)); err == nil {
			failf("short ciphertext of %d bytes accepted", n)
		}
	}
	if _, err := Encrypt(et, key, usage, nil, make([]byte, ConfounderSize(et)+1)); err == nil {
		failf("bad confounder length accepted")
	}
	if _, err := Encrypt(et, key[1:], usage, nil, make([]byte, ConfounderSize(et))); err == nil {
		failf("bad key length accepted")
	}
	return fails
}
