package rcrypto

import (
	"crypto/aes"
	"crypto/cipher"
	"crypto/des"
	"crypto/hmac"
	"encoding/binary"
	"fmt"
	"hash"
	"math/bits"
)

// Nfold is the n-fold function of RFC 3961 5.1: the input is replicated
// lcm(len(in), n) / len(in) times, each copy rotated right by 13 bits more than
// the previous one, and the n-bit chunks of the result are summed with
// ones-complement (end-around carry) addition. outBits must be a multiple of 8.
func Nfold(in []byte, outBits int) []byte {
	k, m := outBits/8, len(in)
	out := make([]byte, k)
	if k == 0 || m == 0 {
		return out
	}
	g, r := k, m
	for r != 0 {
		g, r = r, g%r
	}
	l := k / g * m
	buf := make([]byte, l)
	nbits := m * 8
	for c := 0; c < l/m; c++ {
		rot := 13 * c % nbits
		for j := 0; j < nbits; j++ { // bit j of the copy is bit j-rot of the input
			src := (j - rot + nbits) % nbits
			if in[src/8]>>(7-uint(src%8))&1 == 1 {
				buf[c*m+j/8] |= 1 << (7 - uint(j%8))
			}
		}
	}
	for off := 0; off < l; off += k {
		carry := 0
		for i := k - 1; i >= 0; i-- {
			s := int(out[i]) + int(buf[off+i]) + carry
			out[i], carry = byte(s), s>>8
		}
		for carry != 0 { // end-around carry
			for i := k - 1; i >= 0 && carry != 0; i-- {
				s := int(out[i]) + carry
				out[i], carry = byte(s), s>>8
			}
		}
	}
	return out
}

// PBKDF2 is RFC 2898 PBKDF2 with HMAC over the given hash as PRF.
func PBKDF2(prf func() hash.Hash, password, salt []byte, iter, keyLen int) []byte {
	m := hmac.New(prf, password)
	var out []byte
	for blk := uint32(1); len(out) < keyLen; blk++ {
		m.Reset()
		m.Write(salt)
		m.Write(binary.BigEndian.AppendUint32(nil, blk))
		u := m.Sum(nil)
		t := append([]byte(nil), u...)
		for i := 1; i < iter; i++ {
			m.Reset()
			m.Write(u)
			u = m.Sum(u[:0])
			for j := range t {
				t[j] ^= u[j]
			}
		}
		out = append(out, t...)
	}
	return out[:keyLen]
}

// DK is the key derivation function DK(Key, Constant) = random-to-key(DR(Key,
// Constant)) of RFC 3961 5.1 for des3-cbc-sha1-kd and the RFC 3962 AES types.
func DK(etype int, key, constant []byte) ([]byte, error) {
	var blk cipher.Block
	var err error
	switch etype {
	case DES3:
		if len(key) != 24 {
			return nil, fmt.Errorf("rcrypto: des3 key length %d", len(key))
		}
		blk, err = des.NewTripleDESCipher(key)
	case AES128, AES256:
		if len(key) != KeySize(etype) {
			return nil, fmt.Errorf("rcrypto: aes key length %d", len(key))
		}
		blk, err = aes.NewCipher(key)
	default:
		return nil, errEtype
	}
	if err != nil {
		return nil, err
	}
	bs := blk.BlockSize()
	state := constant
	if len(state) != bs {
		state = Nfold(constant, bs*8)
	}
	state = append([]byte(nil), state...)
	var dr []byte
	for len(dr) < SeedSize(etype) { // K1 = E(Key, constant), Ki+1 = E(Key, Ki)
		blk.Encrypt(state, state)
		dr = append(dr, state...)
	}
	return RandomToKey(etype, dr[:SeedSize(etype)])
}

// KDFHMACSHA2 is KDF-HMAC-SHA2(key, label, k) of RFC 8009 3 with empty context:
// k-truncate(HMAC-SHA-256/384(key, 0x00000001 | label | 0x00 | k)).
func KDFHMACSHA2(etype int, key, label []byte, kBits int) []byte {
	p := profiles[etype]
	if p == nil || (etype != AES128S2 && etype != AES256S2) {
		return nil
	}
	m := hmac.New(p.hash, key)
	m.Write([]byte{0, 0, 0, 1})
	m.Write(label)
	m.Write([]byte{0})
	m.Write(binary.BigEndian.AppendUint32(nil, uint32(kBits)))
	out := m.Sum(nil)
	if kBits/8 > len(out) {
		return nil
	}
	return out[:kBits/8]
}

// des3RandomToKey expands 21 bytes to a 24-byte DES3 key (RFC 3961 6.3.1): each
// 7-byte group gives 7 key bytes from its upper 7 bits and an 8th from the 7
// collected low bits; every byte gets odd parity in its low bit, and weak or
// semi-weak DES keys are corrected by XORing the last byte with 0xF0.
func des3RandomToKey(seed []byte) []byte {
	key := make([]byte, 0, 24)
	for g := 0; g < 3; g++ {
		in := seed[7*g : 7*g+7]
		var k [8]byte
		for i, b := range in {
			k[i] = b &^ 1
			k[7] |= (b & 1) << uint(i+1)
		}
		for i := range k {
			if bits.OnesCount8(k[i])%2 == 0 {
				k[i] |= 1
			}
		}
		if weakDESKeys[string(k[:])] {
			k[7] ^= 0xF0
		}
		key = append(key, k[:]...)
	}
	return key
}

var weakDESKeys = func() map[string]bool {
	m := map[string]bool{}
	for _, k := range [][8]byte{
		{0x01, 0x01, 0x01, 0x01, 0x01, 0x01, 0x01, 0x01}, {0xFE, 0xFE, 0xFE, 0xFE, 0xFE, 0xFE, 0xFE, 0xFE},
		{0xE0, 0xE0, 0xE0, 0xE0, 0xF1, 0xF1, 0xF1, 0xF1}, {0x1F, 0x1F, 0x1F, 0x1F, 0x0E, 0x0E, 0x0E, 0x0E},
		{0x01, 0x1F, 0x01, 0x1F, 0x01, 0x0E, 0x01, 0x0E}, {0x1F, 0x01, 0x1F, 0x01, 0x0E, 0x01, 0x0E, 0x01},
		{0x01, 0xE0, 0x01, 0xE0, 0x01, 0xF1, 0x01, 0xF1}, {0xE0, 0x01, 0xE0, 0x01, 0xF1, 0x01, 0xF1, 0x01},
		{0x01, 0xFE, 0x01, 0xFE, 0x01, 0xFE, 0x01, 0xFE}, {0xFE, 0x01, 0xFE, 0x01, 0xFE, 0x01, 0xFE, 0x01},
		{0x1F, 0xE0, 0x1F, 0xE0, 0x0E, 0xF1, 0x0E, 0xF1}, {0xE0, 0x1F, 0xE0, 0x1F, 0xF1, 0x0E, 0xF1, 0x0E},
		{0x1F, 0xFE, 0x1F, 0xFE, 0x0E, 0xFE, 0x0E, 0xFE}, {0xFE, 0x1F, 0xFE, 0x1F, 0xFE, 0x0E, 0xFE, 0x0E},
		{0xE0, 0xFE, 0xE0, 0xFE, 0xF1, 0xFE, 0xF1, 0xFE}, {0xFE, 0xE0, 0xFE, 0xE0, 0xFE, 0xF1, 0xFE, 0xF1},
	} {
		m[string(k[:])] = true
	}
	return m
}()

func xorInto(dst, a, b []byte) {
	for i := range dst {
		dst[i] = a[i] ^ b[i]
	}
}

// ctsEncrypt is AES-CBC with ciphertext stealing and a zero IV as used by
// Kerberos (RFC 3962 5, "CBC-CS3"): the last two blocks are always swapped and
// the (now) final one truncated to the input length. len(pt) must be >= 16.
func ctsEncrypt(key, pt []byte) []byte {
	blk, err := aes.NewCipher(key)
	if err != nil {
		panic(err) // key length is fixed by the callers
	}
	n := len(pt)
	nb := (n + 15) / 16
	padded := make([]byte, nb*16)
	copy(padded, pt)
	cipher.NewCBCEncrypter(blk, make([]byte, 16)).CryptBlocks(padded, padded)
	if nb == 1 {
		return padded
	}
	out := make([]byte, 0, n)
	out = append(out, padded[:(nb-2)*16]...)
	out = append(out, padded[(nb-1)*16:]...)          // C_n
	out = append(out, padded[(nb-2)*16:(nb-1)*16]...) // C_n-1, truncated below
	return out[:n]
}

// ctsDecrypt inverts ctsEncrypt. len(ct) must be >= 16.
func ctsDecrypt(key, ct []byte) []byte {
	blk, err := aes.NewCipher(key)
	if err != nil {
		panic(err)
	}
	n := len(ct)
	nb := (n + 15) / 16
	out := make([]byte, nb*16)
	iv := make([]byte, 16)
	if nb == 1 {
		blk.Decrypt(out, ct)
		return out
	}
	head := (nb - 2) * 16
	if head > 0 {
		cipher.NewCBCDecrypter(blk, iv).CryptBlocks(out[:head], ct[:head])
		iv = ct[head-16 : head]
	}
	d := n - head - 16       // length of the final plaintext block, 1..16
	cn := ct[head : head+16] // C_n (full)
	tail := ct[head+16:]     // first d bytes of C_n-1
	dn := make([]byte, 16)   // D(C_n) = (P_n | 0-pad) xor C_n-1
	blk.Decrypt(dn, cn)
	cn1 := append(append(make([]byte, 0, 16), tail...), dn[d:]...) // rebuilt C_n-1
	xorInto(out[head+16:head+16+d], dn[:d], tail)                  // P_n
	blk.Decrypt(dn, cn1)
	xorInto(out[head:head+16], dn, iv) // P_n-1
	return out[:n]
}
