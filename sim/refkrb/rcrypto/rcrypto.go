// Package rcrypto is an independent reference implementation of the Kerberos 5
// cryptosystems des3-cbc-sha1-kd (RFC 3961), aes*-cts-hmac-sha1-96 (RFC 3962),
// aes*-cts-hmac-sha2 (RFC 8009) and rc4-hmac (RFC 4757). It is written from the
// RFCs on top of the Go standard library only (plus x/crypto/md4) and serves as
// a test oracle; it shares no code with the library under test.
package rcrypto

import (
	"crypto/cipher"
	"crypto/des"
	"crypto/hmac"
	"crypto/md5"
	"crypto/rc4"
	"crypto/sha1"
	"crypto/sha256"
	"crypto/sha512"
	"encoding/binary"
	"errors"
	"fmt"
	"hash"
	"unicode/utf16"

	"golang.org/x/crypto/md4"
)

// Encryption type numbers.
const (
	DES3     = 16 // des3-cbc-sha1-kd
	AES128   = 17 // aes128-cts-hmac-sha1-96
	AES256   = 18 // aes256-cts-hmac-sha1-96
	AES128S2 = 19 // aes128-cts-hmac-sha256-128
	AES256S2 = 20 // aes256-cts-hmac-sha384-192
	RC4      = 23 // rc4-hmac
)

// AllEtypes lists every supported encryption type.
var AllEtypes = []int{16, 17, 18, 19, 20, 23}

type profile struct {
	name      string
	keySize   int // protocol key length (bytes)
	seedSize  int // random-to-key input length (bytes)
	confSize  int // confounder length (bytes)
	block     int // cipher block size (bytes), 1 for the stream cipher
	cksumType int32
	macSize   int              // checksum length == encryption MAC length (bytes)
	kiSize    int              // Ki/Kc length in bytes (RFC 8009 only)
	hash      func() hash.Hash // hash underlying the HMAC
	s2kIter   uint32           // default string-to-key iteration count (0: n/a)
}

var profiles = map[int]*profile{
	DES3:     {"des3-cbc-sha1-kd", 24, 21, 8, 8, 12, 20, 0, sha1.New, 0},
	AES128:   {"aes128-cts-hmac-sha1-96", 16, 16, 16, 16, 15, 12, 0, sha1.New, 4096},
	AES256:   {"aes256-cts-hmac-sha1-96", 32, 32, 16, 16, 16, 12, 0, sha1.New, 4096},
	AES128S2: {"aes128-cts-hmac-sha256-128", 16, 16, 16, 16, 19, 16, 16, sha256.New, 32768},
	AES256S2: {"aes256-cts-hmac-sha384-192", 32, 32, 16, 16, 20, 24, 24, sha512.New384, 32768},
	RC4:      {"rc4-hmac", 16, 16, 8, 1, -138, 16, 0, md5.New, 0},
}

var errEtype = errors.New("rcrypto: unsupported etype")

// Supported reports whether etype is implemented.
func Supported(etype int) bool { return profiles[etype] != nil }

func field(etype int, f func(*profile) int) int {
	if p := profiles[etype]; p != nil {
		return f(p)
	}
	return 0
}

// KeySize is the protocol key length in bytes.
func KeySize(etype int) int { return field(etype, func(p *profile) int { return p.keySize }) }

// SeedSize is the random-to-key input length in bytes.
func SeedSize(etype int) int { return field(etype, func(p *profile) int { return p.seedSize }) }

// ConfounderSize is the confounder length in bytes.
func ConfounderSize(etype int) int { return field(etype, func(p *profile) int { return p.confSize }) }

// ChecksumSize is the length of the mandatory checksum in bytes.
func ChecksumSize(etype int) int { return field(etype, func(p *profile) int { return p.macSize }) }

// ChecksumType is the mandatory checksum type of etype (0 if unsupported).
func ChecksumType(etype int) int32 {
	if p := profiles[etype]; p != nil {
		return p.cksumType
	}
	return 0
}

// EtypeForChecksum maps a keyed checksum type back to its encryption type.
func EtypeForChecksum(cksumtype int32) (int, bool) {
	for _, e := range AllEtypes {
		if profiles[e].cksumType == cksumtype {
			return e, true
		}
	}
	return 0, false
}

func check(etype int, key []byte) (*profile, error) {
	p := profiles[etype]
	if p == nil {
		return nil, errEtype
	}
	if len(key) != p.keySize {
		return nil, fmt.Errorf("rcrypto: %s: key length %d, want %d", p.name, len(key), p.keySize)
	}
	return p, nil
}

// RandomToKey turns SeedSize(etype) random bytes into a protocol key.
func RandomToKey(etype int, seed []byte) ([]byte, error) {
	p := profiles[etype]
	if p == nil {
		return nil, errEtype
	}
	if len(seed) != p.seedSize {
		return nil, fmt.Errorf("rcrypto: %s: seed length %d, want %d", p.name, len(seed), p.seedSize)
	}
	if etype == DES3 {
		return des3RandomToKey(seed), nil
	}
	return append([]byte(nil), seed...), nil
}

// StringToKey derives the long-term key of a principal from its password.
func StringToKey(etype int, password, salt string, s2kparams []byte) ([]byte, error) {
	p := profiles[etype]
	if p == nil {
		return nil, errEtype
	}
	switch etype {
	case DES3: // RFC 3961 6.3.1
		tmp := des3RandomToKey(Nfold([]byte(password+salt), 168))
		return DK(DES3, tmp, []byte("kerberos"))
	case RC4: // RFC 4757 2: MD4 over the UTF-16LE password, salt unused
		h := md4.New()
		for _, u := range utf16.Encode([]rune(password)) {
			h.Write([]byte{byte(u), byte(u >> 8)})
		}
		return h.Sum(nil), nil
	}
	iter := p.s2kIter
	if len(s2kparams) != 0 {
		if len(s2kparams) != 4 {
			return nil, fmt.Errorf("rcrypto: %s: s2kparams must be 4 bytes, got %d", p.name, len(s2kparams))
		}
		if iter = binary.BigEndian.Uint32(s2kparams); iter == 0 {
			return nil, errors.New("rcrypto: iteration count 0 (2^32) not supported")
		}
	}
	if etype == AES128 || etype == AES256 { // RFC 3962 4
		tkey := PBKDF2(sha1.New, []byte(password), []byte(salt), int(iter), p.keySize)
		return DK(etype, tkey, []byte("kerberos"))
	}
	// RFC 8009 4: saltp = enctype-name | 0x00 | salt
	saltp := append(append([]byte(p.name), 0), salt...)
	tkey := PBKDF2(p.hash, []byte(password), saltp, int(iter), p.keySize)
	return KDFHMACSHA2(etype, tkey, []byte("kerberos"), p.keySize*8), nil
}

// usageKey derives Ke (0xAA), Ki (0x55) or Kc (0x99) for a key usage number.
func usageKey(etype int, key []byte, usage uint32, kind byte) ([]byte, error) {
	constant := []byte{byte(usage >> 24), byte(usage >> 16), byte(usage >> 8), byte(usage), kind}
	p := profiles[etype]
	switch etype {
	case DES3, AES128, AES256:
		return DK(etype, key, constant)
	case AES128S2, AES256S2:
		if kind == 0xAA {
			return KDFHMACSHA2(etype, key, constant, p.keySize*8), nil
		}
		return KDFHMACSHA2(etype, key, constant, p.kiSize*8), nil
	}
	return nil, errEtype
}

func mac(h func() hash.Hash, key []byte, size int, parts ...[]byte) []byte {
	m := hmac.New(h, key)
	for _, b := range parts {
		m.Write(b)
	}
	return m.Sum(nil)[:size]
}

// rc4Usage applies the usage translation of RFC 4757 sections 3 and 4 and
// returns the number as 4 little-endian bytes.
func rc4Usage(usage uint32) []byte {
	switch usage {
	case 3: // AS-REP encrypted part
		usage = 8
	case 9: // TGS-REP encrypted part under an authenticator subkey
		usage = 8
	case 23: // GSS sign/wrap token
		usage = 13
	}
	return binary.LittleEndian.AppendUint32(nil, usage)
}

func des3CBC(key, data []byte, decrypt bool) []byte {
	c, err := des.NewTripleDESCipher(key)
	if err != nil {
		panic(err) // key length was validated by the caller
	}
	out := make([]byte, len(data))
	if decrypt {
		cipher.NewCBCDecrypter(c, make([]byte, 8)).CryptBlocks(out, data)
	} else {
		cipher.NewCBCEncrypter(c, make([]byte, 8)).CryptBlocks(out, data)
	}
	return out
}

// Encrypt produces the RFC ciphertext (EncryptedData.cipher) using the given confounder.
func Encrypt(etype int, key []byte, usage uint32, plaintext, confounder []byte) ([]byte, error) {
	p, err := check(etype, key)
	if err != nil {
		return nil, err
	}
	if len(confounder) != p.confSize {
		return nil, fmt.Errorf("rcrypto: %s: confounder length %d, want %d", p.name, len(confounder), p.confSize)
	}
	pt := append(append(make([]byte, 0, len(confounder)+len(plaintext)+8), confounder...), plaintext...)
	if etype == RC4 {
		k1 := mac(md5.New, key, 16, rc4Usage(usage))
		cksum := mac(md5.New, k1, 16, pt)
		k3 := mac(md5.New, k1, 16, cksum)
		c, err := rc4.NewCipher(k3)
		if err != nil {
			return nil, err
		}
		c.XORKeyStream(pt, pt)
		return append(cksum, pt...), nil
	}
	ke, err := usageKey(etype, key, usage, 0xAA)
	if err != nil {
		return nil, err
	}
	ki, err := usageKey(etype, key, usage, 0x55)
	if err != nil {
		return nil, err
	}
	switch etype {
	case DES3:
		for len(pt)%8 != 0 {
			pt = append(pt, 0)
		}
		return append(des3CBC(ke, pt, false), mac(sha1.New, ki, 20, pt)...), nil
	case AES128, AES256: // MAC over the plaintext
		return append(ctsEncrypt(ke, pt), mac(sha1.New, ki, 12, pt)...), nil
	default: // RFC 8009: MAC over IV | ciphertext
		c := ctsEncrypt(ke, pt)
		return append(c, mac(p.hash, ki, p.macSize, make([]byte, 16), c)...), nil
	}
}

// Decrypt verifies the integrity of ciphertext and returns the plaintext
// without the confounder (des3: including any zero padding).
func Decrypt(etype int, key []byte, usage uint32, ciphertext []byte) ([]byte, error) {
	p, err := check(etype, key)
	if err != nil {
		return nil, err
	}
	if len(ciphertext) < p.confSize+p.macSize {
		return nil, fmt.Errorf("rcrypto: %s: ciphertext too short (%d bytes)", p.name, len(ciphertext))
	}
	errIntegrity := fmt.Errorf("rcrypto: %s: integrity check failed", p.name)
	if etype == RC4 {
		cksum, body := ciphertext[:16], ciphertext[16:]
		k1 := mac(md5.New, key, 16, rc4Usage(usage))
		k3 := mac(md5.New, k1, 16, cksum)
		c, err := rc4.NewCipher(k3)
		if err != nil {
			return nil, err
		}
		pt := make([]byte, len(body))
		c.XORKeyStream(pt, body)
		if !hmac.Equal(cksum, mac(md5.New, k1, 16, pt)) {
			return nil, errIntegrity
		}
		return pt[8:], nil
	}
	body, tag := ciphertext[:len(ciphertext)-p.macSize], ciphertext[len(ciphertext)-p.macSize:]
	if etype == DES3 && len(body)%8 != 0 {
		return nil, fmt.Errorf("rcrypto: %s: ciphertext not a multiple of the block size", p.name)
	}
	ke, err := usageKey(etype, key, usage, 0xAA)
	if err != nil {
		return nil, err
	}
	ki, err := usageKey(etype, key, usage, 0x55)
	if err != nil {
		return nil, err
	}
	var pt, want []byte
	switch etype {
	case DES3:
		pt = des3CBC(ke, body, true)
		want = mac(sha1.New, ki, 20, pt)
	case AES128, AES256:
		pt = ctsDecrypt(ke, body)
		want = mac(sha1.New, ki, 12, pt)
	default:
		want = mac(p.hash, ki, p.macSize, make([]byte, 16), body)
		if hmac.Equal(tag, want) { // verify before decrypting (RFC 8009 5)
			pt = ctsDecrypt(ke, body)
		}
	}
	if !hmac.Equal(tag, want) {
		return nil, errIntegrity
	}
	return pt[p.confSize:], nil
}

// Checksum computes the mandatory keyed checksum of etype over data.
func Checksum(etype int, key []byte, usage uint32, data []byte) ([]byte, error) {
	p, err := check(etype, key)
	if err != nil {
		return nil, err
	}
	if etype == RC4 { // RFC 4757 4
		ksign := mac(md5.New, key, 16, []byte("signaturekey\x00"))
		tmp := md5.New()
		tmp.Write(rc4Usage(usage))
		tmp.Write(data)
		return mac(md5.New, ksign, 16, tmp.Sum(nil)), nil
	}
	kc, err := usageKey(etype, key, usage, 0x99)
	if err != nil {
		return nil, err
	}
	return mac(p.hash, kc, p.macSize, data), nil
}

// VerifyChecksum reports whether cksum is the mandatory checksum of data.
func VerifyChecksum(etype int, key []byte, usage uint32, data, cksum []byte) bool {
	want, err := Checksum(etype, key, usage, data)
	return err == nil && hmac.Equal(want, cksum)
}
