// Package der is a small hand-written DER writer and reader used by the reference Kerberos
// implementation.  It shares no code with encoding/asn1 or gofork/asn1.  The writer emits strict
// DER; the reader accepts definite-length BER and records every deviation from DER so that an
// oracle can demand strictness from what gokrb5 sends without rejecting what a real peer accepts.
package der

import (
	"errors"
	"fmt"
	"time"
)

const (
	TagBool        = 0x01
	TagInt         = 0x02
	TagBitString   = 0x03
	TagOctetString = 0x04
	TagOID         = 0x06
	TagEnum        = 0x0a
	TagGenTime     = 0x18
	TagGenString   = 0x1b
	TagSeq         = 0x30
)

func encLen(n int) []byte {
	switch {
	case n < 0x80:
		return []byte{byte(n)}
	case n < 0x100:
		return []byte{0x81, byte(n)}
	case n < 0x10000:
		return []byte{0x82, byte(n >> 8), byte(n)}
	case n < 0x1000000:
		return []byte{0x83, byte(n >> 16), byte(n >> 8), byte(n)}
	default:
		return []byte{0x84, byte(n >> 24), byte(n >> 16), byte(n >> 8), byte(n)}
	}
}

// TLV builds tag | length | concatenated contents.
func TLV(tag byte, contents ...[]byte) []byte {
	n := 0
	for _, c := range contents {
		n += len(c)
	}
	out := make([]byte, 0, n+6)
	out = append(out, tag)
	out = append(out, encLen(n)...)
	for _, c := range contents {
		out = append(out, c...)
	}
	return out
}

func Seq(items ...[]byte) []byte { return TLV(TagSeq, items...) }

// Ctx wraps inner in an explicit context tag [n]; a nil inner yields nil (absent optional field).
func Ctx(n int, inner []byte) []byte {
	if inner == nil {
		return nil
	}
	return TLV(0xa0|byte(n), inner)
}

// App wraps inner in an explicit APPLICATION tag.
func App(n int, inner []byte) []byte { return TLV(0x60|byte(n), inner) }

func Int(v int64) []byte {
	var b []byte
	for i := 7; i >= 0; i-- {
		b = append(b, byte(v>>(8*uint(i))))
	}
	// strip redundant leading bytes
	for len(b) > 1 && ((b[0] == 0 && b[1]&0x80 == 0) || (b[0] == 0xff && b[1]&0x80 != 0)) {
		b = b[1:]
	}
	return TLV(TagInt, b)
}

func OctetString(b []byte) []byte {
	if b == nil {
		b = []byte{}
	}
	return TLV(TagOctetString, b)
}

func GeneralString(s string) []byte { return TLV(TagGenString, []byte(s)) }

// GenTime encodes a KerberosTime (no fractional seconds, Z).
func GenTime(t time.Time) []byte {
	return TLV(TagGenTime, []byte(t.UTC().Format("20060102150405Z")))
}

// GenTimeZone encodes the same instant as local time with a numeric zone offset of min minutes
// (a form of GeneralizedTime that ASN.1 allows, DER and RFC 4120 do not, and lenient decoders accept).
func GenTimeZone(t time.Time, min int) []byte {
	return TLV(TagGenTime, []byte(t.In(time.FixedZone("", min*60)).Format("20060102150405-0700")))
}

// Flags32 encodes KerberosFlags: a 32-bit BIT STRING, bit 0 is the most significant bit.
func Flags32(f uint32) []byte {
	return TLV(TagBitString, []byte{0, byte(f >> 24), byte(f >> 16), byte(f >> 8), byte(f)})
}

func BitString(b []byte) []byte { return TLV(TagBitString, append([]byte{0}, b...)) }

func Enum(v int) []byte { return TLV(TagEnum, Int(int64(v))[2:]) }

func Bool(v bool) []byte {
	if v {
		return TLV(TagBool, []byte{0xff})
	}
	return TLV(TagBool, []byte{0})
}

func OID(arcs ...int) []byte {
	b := []byte{byte(arcs[0]*40 + arcs[1])}
	for _, a := range arcs[2:] {
		var t []byte
		t = append(t, byte(a&0x7f))
		for a >>= 7; a > 0; a >>= 7 {
			t = append([]byte{byte(a&0x7f) | 0x80}, t...)
		}
		b = append(b, t...)
	}
	return TLV(TagOID, b)
}

// Node is one parsed TLV.
type Node struct {
	Tag     byte   // first identifier octet
	Content []byte // value octets
	Raw     []byte // complete TLV
	kids    []*Node
	parsed  bool
	Lax     []string // deviations from DER seen while parsing this node (not its children)
}

func (n *Node) Class() int        { return int(n.Tag >> 6) }
func (n *Node) Constructed() bool { return n.Tag&0x20 != 0 }
func (n *Node) Num() int          { return int(n.Tag & 0x1f) }
func (n *Node) IsCtx(i int) bool  { return n.Tag == 0xa0|byte(i) }
func (n *Node) IsApp(i int) bool  { return n.Tag == 0x60|byte(i) }

var ErrTrunc = errors.New("der: truncated")

// Parse reads one TLV from b.
func Parse(b []byte) (*Node, []byte, error) {
	if len(b) < 2 {
		return nil, nil, ErrTrunc
	}
	n := &Node{Tag: b[0]}
	if b[0]&0x1f == 0x1f {
		return nil, nil, errors.New("der: high tag numbers not supported")
	}
	l := int(b[1])
	off := 2
	if l&0x80 != 0 {
		k := l & 0x7f
		if k == 0 {
			return nil, nil, errors.New("der: indefinite length")
		}
		if k > 4 || len(b) < 2+k {
			return nil, nil, ErrTrunc
		}
		l = 0
		for i := 0; i < k; i++ {
			l = l<<8 | int(b[2+i])
		}
		off = 2 + k
		if l < 0x80 || (k > 1 && b[2] == 0) {
			n.Lax = append(n.Lax, "non-minimal length")
		}
	}
	if l < 0 || off+l > len(b) {
		return nil, nil, ErrTrunc
	}
	n.Content = b[off : off+l]
	n.Raw = b[:off+l]
	return n, b[off+l:], nil
}

// ParseAll parses b as exactly one TLV.
func ParseAll(b []byte) (*Node, error) {
	n, rest, err := Parse(b)
	if err != nil {
		return nil, err
	}
	if len(rest) != 0 {
		return nil, fmt.Errorf("der: %d trailing bytes", len(rest))
	}
	return n, nil
}

// Kids parses the content of a constructed node.
func (n *Node) Kids() ([]*Node, error) {
	if n.parsed {
		return n.kids, nil
	}
	if !n.Constructed() {
		return nil, fmt.Errorf("der: tag %#x is primitive", n.Tag)
	}
	b := n.Content
	for len(b) > 0 {
		k, rest, err := Parse(b)
		if err != nil {
			return nil, err
		}
		n.kids = append(n.kids, k)
		b = rest
	}
	n.parsed = true
	return n.kids, nil
}

// Inner returns the single child of an explicitly tagged node.
func (n *Node) Inner() (*Node, error) {
	ks, err := n.Kids()
	if err != nil {
		return nil, err
	}
	if len(ks) != 1 {
		return nil, fmt.Errorf("der: explicit tag %#x holds %d elements", n.Tag, len(ks))
	}
	return ks[0], nil
}

// Field returns the value inside the explicit context tag [i] of a SEQUENCE, or nil if absent.
func (n *Node) Field(i int) (*Node, error) {
	ks, err := n.Kids()
	if err != nil {
		return nil, err
	}
	for _, k := range ks {
		if k.IsCtx(i) {
			return k.Inner()
		}
	}
	return nil, nil
}

// Must is Field for a mandatory field.
func (n *Node) Must(i int) (*Node, error) {
	f, err := n.Field(i)
	if err != nil {
		return nil, err
	}
	if f == nil {
		return nil, fmt.Errorf("der: mandatory field [%d] missing", i)
	}
	return f, nil
}

// FieldOrder reports whether the context tags of a SEQUENCE's children are strictly increasing.
func (n *Node) FieldOrder() bool {
	ks, err := n.Kids()
	if err != nil {
		return false
	}
	last := -1
	for _, k := range ks {
		if k.Class() != 2 {
			return false
		}
		if k.Num() <= last {
			return false
		}
		last = k.Num()
	}
	return true
}

func (n *Node) expect(tag byte) error {
	if n == nil {
		return errors.New("der: nil node")
	}
	if n.Tag != tag {
		return fmt.Errorf("der: tag %#x where %#x expected", n.Tag, tag)
	}
	return nil
}

func (n *Node) Int() (int64, error) {
	if err := n.expect(TagInt); err != nil {
		return 0, err
	}
	c := n.Content
	if len(c) == 0 || len(c) > 8 {
		return 0, errors.New("der: bad INTEGER length")
	}
	if len(c) > 1 && ((c[0] == 0 && c[1]&0x80 == 0) || (c[0] == 0xff && c[1]&0x80 != 0)) {
		n.Lax = append(n.Lax, "non-minimal INTEGER")
	}
	v := int64(int8(c[0]))
	for _, x := range c[1:] {
		v = v<<8 | int64(x)
	}
	return v, nil
}

func (n *Node) Octets() ([]byte, error) {
	if err := n.expect(TagOctetString); err != nil {
		return nil, err
	}
	return n.Content, nil
}

func (n *Node) GenString() (string, error) {
	if err := n.expect(TagGenString); err != nil {
		return "", err
	}
	return string(n.Content), nil
}

func (n *Node) Time() (time.Time, error) {
	if err := n.expect(TagGenTime); err != nil {
		return time.Time{}, err
	}
	t, err := time.Parse("20060102150405Z", string(n.Content))
	if err != nil {
		return time.Time{}, fmt.Errorf("der: KerberosTime %q: %v", n.Content, err)
	}
	return t.UTC(), nil
}

// Flags reads a BIT STRING as up to 32 flag bits (bit 0 = MSB); shorter strings are padded.
func (n *Node) Flags() (uint32, error) {
	if err := n.expect(TagBitString); err != nil {
		return 0, err
	}
	if len(n.Content) < 1 {
		return 0, errors.New("der: empty BIT STRING")
	}
	if len(n.Content) != 5 || n.Content[0] != 0 {
		n.Lax = append(n.Lax, "KerberosFlags not 32 bits")
	}
	var f uint32
	for i := 0; i < 4; i++ {
		f <<= 8
		if 1+i < len(n.Content) {
			f |= uint32(n.Content[1+i])
		}
	}
	return f, nil
}

func (n *Node) OIDString() (string, error) {
	if err := n.expect(TagOID); err != nil {
		return "", err
	}
	if len(n.Content) == 0 {
		return "", errors.New("der: empty OID")
	}
	s := fmt.Sprintf("%d.%d", n.Content[0]/40, n.Content[0]%40)
	v := 0
	for _, c := range n.Content[1:] {
		v = v<<7 | int(c&0x7f)
		if c&0x80 == 0 {
			s += fmt.Sprintf(".%d", v)
			v = 0
		}
	}
	return s, nil
}

// CollectLax walks the tree and returns every DER deviation with its path.
func CollectLax(n *Node, path string, out *[]string) {
	for _, l := range n.Lax {
		*out = append(*out, path+": "+l)
	}
	if n.Constructed() {
		ks, err := n.Kids()
		if err != nil {
			*out = append(*out, path+": "+err.Error())
			return
		}
		for i, k := range ks {
			CollectLax(k, fmt.Sprintf("%s/%d", path, i), out)
		}
	}
}
