package rk

import (
	"bytes"
	"encoding/hex"
	"io"
	"log"
	"testing"

	"github.com/jcmturner/gokrb5/v8/keytab"
	"github.com/jcmturner/gokrb5/v8/pac"
	"github.com/jcmturner/gokrb5/v8/test/testdata"
	"github.com/jcmturner/gokrb5/v8/types"
	"verifsim/refkrb/rcrypto"
)

// development-time validation of the PAC signer against the captured sample and against gokrb5.
func TestSignPACReproducesSample(t *testing.T) {
	sample, _ := hex.DecodeString(testdata.MarshaledPAC_AD_WIN2K_PAC)
	kb, _ := hex.DecodeString(testdata.KEYTAB_SYSHTTP_TEST_GOKRB5)
	kt := keytab.New()
	kt.Unmarshal(kb)
	pn, _ := types.ParseSPNString("sysHTTP")
	key, _, err := kt.GetEncryptionKey(pn, "TEST.GOKRB5", 2, 18)
	if err != nil {
		t.Fatal(err)
	}
	bufs, err := ParsePAC(sample)
	if err != nil {
		t.Fatal(err)
	}
	out, err := SignPAC(bufs, EncryptionKey{18, key.KeyValue}, EncryptionKey{23, mustKey(23, 9)})
	if err != nil {
		t.Fatal(err)
	}
	if len(out) != len(sample) || !bytes.Equal(out[764:776], sample[764:776]) {
		t.Fatalf("server signature differs from the captured one:\n got %x\nwant %x", out[764:776], sample[764:776])
	}
	for _, et := range []int{17, 18, 19, 20, 23} {
		sk := EncryptionKey{int32(et), mustKey(et, 3)}
		p, err := SignPAC(bufs, sk, EncryptionKey{18, mustKey(18, 4)})
		if err != nil {
			t.Fatal(err)
		}
		var g pac.PACType
		if err := g.Unmarshal(p); err != nil {
			t.Fatal(err)
		}
		if err := g.ProcessPACInfoBuffers(types.EncryptionKey{KeyType: int32(et), KeyValue: sk.Value}, log.New(io.Discard, "", 0)); err != nil {
			t.Fatalf("etype %d: gokrb5 refuses the re-signed PAC: %v", et, err)
		}
		p[100] ^= 1
		var g2 pac.PACType
		g2.Unmarshal(p)
		if err := g2.ProcessPACInfoBuffers(types.EncryptionKey{KeyType: int32(et), KeyValue: sk.Value}, log.New(io.Discard, "", 0)); err == nil {
			t.Fatalf("etype %d: flipped PAC accepted", et)
		}
		_ = rcrypto.AES128
	}
}
