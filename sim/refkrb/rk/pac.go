package rk

import (
	"encoding/binary"
	"errors"
	"fmt"

	"verifsim/refkrb/rcrypto"
)

// MS-PAC (section 2.3 PACTYPE, 2.8 PAC_SIGNATURE_DATA): enough to take a captured PAC apart,
// lay it out again and sign it with a service key and a KDC key, so that the reference KDC can
// put a PAC with a valid - or deliberately invalid - server signature into a ticket.

const (
	PACBufLogonInfo  = 1
	PACBufServerSig  = 6
	PACBufKDCSig     = 7
	PACBufClientInfo = 10
	pacCksumUsage    = 17 // KERB_NON_KERB_CKSUM_SALT
)

type PACBuffer struct {
	Type uint32
	Data []byte
}

// ParsePAC splits a PACTYPE into its buffers.
func ParsePAC(b []byte) ([]PACBuffer, error) {
	if len(b) < 8 {
		return nil, errors.New("pac: too short")
	}
	n := binary.LittleEndian.Uint32(b[0:4])
	if uint64(n)*16+8 > uint64(len(b)) {
		return nil, errors.New("pac: buffer table exceeds the data")
	}
	var out []PACBuffer
	for i := 0; i < int(n); i++ {
		e := b[8+16*i:]
		t, sz, off := binary.LittleEndian.Uint32(e[0:4]), binary.LittleEndian.Uint32(e[4:8]), binary.LittleEndian.Uint64(e[8:16])
		if off > uint64(len(b)) || uint64(sz) > uint64(len(b))-off {
			return nil, fmt.Errorf("pac: buffer %d outside the data", i)
		}
		out = append(out, PACBuffer{Type: t, Data: append([]byte{}, b[off:off+uint64(sz)]...)})
	}
	return out, nil
}

// BuildPAC lays the buffers out: header, table, data at 8-byte aligned offsets.  It returns the
// bytes and the offset of every buffer.
func BuildPAC(bufs []PACBuffer) ([]byte, []int) {
	off := 8 + 16*len(bufs)
	offs := make([]int, len(bufs))
	for i, b := range bufs {
		off = (off + 7) &^ 7
		offs[i] = off
		off += len(b.Data)
	}
	total := (off + 7) &^ 7
	out := make([]byte, total)
	binary.LittleEndian.PutUint32(out[0:4], uint32(len(bufs)))
	for i, b := range bufs {
		e := out[8+16*i:]
		binary.LittleEndian.PutUint32(e[0:4], b.Type)
		binary.LittleEndian.PutUint32(e[4:8], uint32(len(b.Data)))
		binary.LittleEndian.PutUint64(e[8:16], uint64(offs[i]))
		copy(out[offs[i]:], b.Data)
	}
	return out, offs
}

// pacSigType maps the etype of a signing key to the PAC signature type and size.
func pacSigType(etype int) (uint32, int, bool) {
	switch etype {
	case rcrypto.RC4:
		return 0xffffff76, 16, true // KERB_CHECKSUM_HMAC_MD5 (-138)
	case rcrypto.DES3:
		return 12, 20, true // hmac-sha1-des3-kd: what a KDC signs with for a des3 service key
	case rcrypto.AES128:
		return 15, 12, true
	case rcrypto.AES256:
		return 16, 12, true
	case rcrypto.AES128S2:
		return 19, 16, true
	case rcrypto.AES256S2:
		return 20, 24, true
	}
	return 0, 0, false
}

// PACSignable reports whether a PAC can be signed with a key of the etype.
func PACSignable(etype int) bool { _, _, ok := pacSigType(etype); return ok }

// SignPAC replaces (or adds) the two signature buffers and signs: the server signature is the
// keyed checksum (usage 17) of the whole PAC with both signature values zeroed, under the service
// key; the KDC signature is the checksum of the server signature under the KDC key.
func SignPAC(bufs []PACBuffer, serverKey, kdcKey EncryptionKey) ([]byte, error) {
	st, ss, ok := pacSigType(int(serverKey.Etype))
	kt, ks, ok2 := pacSigType(int(kdcKey.Etype))
	if !ok || !ok2 {
		return nil, errors.New("pac: no signature type for the key's etype")
	}
	var rest []PACBuffer
	for _, b := range bufs {
		if b.Type != PACBufServerSig && b.Type != PACBufKDCSig {
			rest = append(rest, b)
		}
	}
	mk := func(t uint32, n int) []byte {
		d := make([]byte, 4+n)
		binary.LittleEndian.PutUint32(d[0:4], t)
		return d
	}
	all := append(rest, PACBuffer{Type: PACBufServerSig, Data: mk(st, ss)}, PACBuffer{Type: PACBufKDCSig, Data: mk(kt, ks)})
	out, offs := BuildPAC(all)
	so, ko := offs[len(all)-2], offs[len(all)-1]
	ssum, err := rcrypto.Checksum(int(serverKey.Etype), serverKey.Value, pacCksumUsage, out)
	if err != nil {
		return nil, err
	}
	if len(ssum) != ss {
		return nil, fmt.Errorf("pac: checksum of %d bytes where %d expected", len(ssum), ss)
	}
	ksum, err := rcrypto.Checksum(int(kdcKey.Etype), kdcKey.Value, pacCksumUsage, ssum)
	if err != nil {
		return nil, err
	}
	copy(out[so+4:], ssum)
	copy(out[ko+4:], ksum)
	return out, nil
}

// WrapPAC puts a PAC into the authorization-data of a ticket: AD-IF-RELEVANT { AD-WIN2K-PAC }.
func WrapPAC(pac []byte) []AuthDataEntry {
	return []AuthDataEntry{{Type: 1, Data: EncAuthData([]AuthDataEntry{{Type: 128, Data: pac}})}}
}
