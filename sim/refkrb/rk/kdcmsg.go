package rk

import (
	"errors"
	"fmt"
	"time"

	"verifsim/refkrb/der"
)

// KDCReq is a decoded AS-REQ or TGS-REQ.
type KDCReq struct {
	MsgType   int // 10 | 12
	PAData    []PAData
	Options   uint32
	CName     *PrincipalName
	Realm     string
	SName     *PrincipalName
	From      *time.Time
	Till      time.Time
	RTime     *time.Time
	Nonce     int64
	Etypes    []int32
	Addresses []HostAddress // nil = absent
	EncAuthz  *EncryptedData
	AddTkts   []Ticket
	BodyRaw   []byte   // the KDC-REQ-BODY TLV exactly as sent (checksummed by PA-TGS-REQ)
	Lax       []string // DER deviations and structural oddities (strictness oracle)
}

func DecKDCReq(b []byte) (*KDCReq, error) {
	n, err := der.ParseAll(b)
	if err != nil {
		return nil, err
	}
	r := &KDCReq{}
	switch {
	case n.IsApp(MsgASReq):
		r.MsgType = MsgASReq
	case n.IsApp(MsgTGSReq):
		r.MsgType = MsgTGSReq
	default:
		return nil, fmt.Errorf("KDC-REQ: application tag %#x", n.Tag)
	}
	der.CollectLax(n, "req", &r.Lax)
	s, err := n.Inner()
	if err != nil {
		return nil, err
	}
	if s.Tag != der.TagSeq {
		return nil, errors.New("KDC-REQ: not a SEQUENCE")
	}
	if !s.FieldOrder() {
		r.Lax = append(r.Lax, "KDC-REQ fields out of order")
	}
	pv, err := s.Must(1)
	if err != nil {
		return nil, err
	}
	if v, err := pv.Int(); err != nil || v != 5 {
		return nil, errors.New("KDC-REQ: pvno is not 5")
	}
	mt, err := s.Must(2)
	if err != nil {
		return nil, err
	}
	if v, err := mt.Int(); err != nil || int(v) != r.MsgType {
		return nil, fmt.Errorf("KDC-REQ: msg-type %d inside application tag %d", v, r.MsgType)
	}
	pa, err := s.Field(3)
	if err != nil {
		return nil, err
	}
	if r.PAData, err = decPAs(pa); err != nil {
		return nil, err
	}
	body, err := s.Must(4)
	if err != nil {
		return nil, err
	}
	r.BodyRaw = body.Raw
	if !body.FieldOrder() {
		r.Lax = append(r.Lax, "KDC-REQ-BODY fields out of order")
	}
	o, err := body.Must(0)
	if err != nil {
		return nil, err
	}
	if r.Options, err = o.Flags(); err != nil {
		return nil, err
	}
	if c, _ := body.Field(1); c != nil {
		p, err := decName(c)
		if err != nil {
			return nil, err
		}
		r.CName = &p
	}
	rl, err := body.Must(2)
	if err != nil {
		return nil, err
	}
	if r.Realm, err = rl.GenString(); err != nil {
		return nil, err
	}
	if c, _ := body.Field(3); c != nil {
		p, err := decName(c)
		if err != nil {
			return nil, err
		}
		r.SName = &p
	}
	if f, _ := body.Field(4); f != nil {
		t, err := f.Time()
		if err != nil {
			return nil, err
		}
		r.From = &t
	}
	tl, err := body.Must(5)
	if err != nil {
		return nil, err
	}
	if r.Till, err = tl.Time(); err != nil {
		return nil, err
	}
	if f, _ := body.Field(6); f != nil {
		t, err := f.Time()
		if err != nil {
			return nil, err
		}
		r.RTime = &t
	}
	nn, err := body.Must(7)
	if err != nil {
		return nil, err
	}
	if r.Nonce, err = nn.Int(); err != nil {
		return nil, err
	}
	if r.Nonce < 0 || r.Nonce > 0xffffffff {
		r.Lax = append(r.Lax, fmt.Sprintf("nonce %d outside UInt32", r.Nonce))
	}
	et, err := body.Must(8)
	if err != nil {
		return nil, err
	}
	eks, err := et.Kids()
	if err != nil {
		return nil, err
	}
	for _, k := range eks {
		v, err := k.Int()
		if err != nil {
			return nil, err
		}
		r.Etypes = append(r.Etypes, int32(v))
	}
	ad, _ := body.Field(9)
	if r.Addresses, err = decAddrs(ad); err != nil {
		return nil, err
	}
	if ea, _ := body.Field(10); ea != nil {
		e, err := decEncData(ea)
		if err != nil {
			return nil, err
		}
		r.EncAuthz = &e
	}
	if at, _ := body.Field(11); at != nil {
		ks, err := at.Kids()
		if err != nil {
			return nil, err
		}
		for _, k := range ks {
			t, err := DecTicket(k)
			if err != nil {
				return nil, err
			}
			r.AddTkts = append(r.AddTkts, t)
		}
	}
	return r, nil
}

// FindPA returns the first PA-DATA of the type.
func FindPA(pas []PAData, t int32) *PAData {
	for i := range pas {
		if pas[i].Type == t {
			return &pas[i]
		}
	}
	return nil
}

type LastReq struct {
	Type  int32
	Value time.Time
}

type EncKDCRepPart struct {
	Key       EncryptionKey
	LastReqs  []LastReq
	Nonce     int64
	KeyExp    *time.Time
	Flags     uint32
	AuthTime  time.Time
	StartTime *time.Time
	EndTime   time.Time
	RenewTill *time.Time
	SRealm    string
	SName     PrincipalName
	CAddr     []HostAddress
	EncPA     []PAData
}

// EncBytes encodes with the given application tag (25 for AS, 26 for TGS).
func (p EncKDCRepPart) EncBytes(appTag int) []byte {
	var lrs [][]byte
	for _, l := range p.LastReqs {
		lrs = append(lrs, der.Seq(der.Ctx(0, der.Int(int64(l.Type))), der.Ctx(1, der.GenTime(l.Value))))
	}
	return der.App(appTag, der.Seq(
		der.Ctx(0, p.Key.Enc()),
		der.Ctx(1, der.Seq(lrs...)),
		der.Ctx(2, der.Int(p.Nonce)),
		optTime(3, p.KeyExp),
		der.Ctx(4, der.Flags32(p.Flags)),
		der.Ctx(5, der.GenTime(p.AuthTime)),
		optTime(6, p.StartTime),
		der.Ctx(7, der.GenTime(p.EndTime)),
		optTime(8, p.RenewTill),
		der.Ctx(9, der.GeneralString(p.SRealm)),
		der.Ctx(10, p.SName.Enc()),
		der.Ctx(11, encAddrs(p.CAddr)),
		der.Ctx(12, encPAs(p.EncPA)),
	))
}

type KDCRep struct {
	MsgType int // 11 | 13
	PAData  []PAData
	CRealm  string
	CName   PrincipalName
	Ticket  Ticket
	Enc     EncryptedData
}

func (r KDCRep) EncBytes() []byte {
	return der.App(r.MsgType, der.Seq(
		der.Ctx(0, der.Int(5)),
		der.Ctx(1, der.Int(int64(r.MsgType))),
		der.Ctx(2, encPAs(r.PAData)),
		der.Ctx(3, der.GeneralString(r.CRealm)),
		der.Ctx(4, r.CName.Enc()),
		der.Ctx(5, r.Ticket.EncBytes()),
		der.Ctx(6, r.Enc.Enc()),
	))
}

type KRBError struct {
	CTime  *time.Time
	Cusec  *int
	STime  time.Time
	Susec  int
	Code   int32
	CRealm *string
	CName  *PrincipalName
	Realm  string
	SName  PrincipalName
	EText  *string
	EData  []byte // nil = absent
}

func (e KRBError) EncBytes() []byte {
	var cu, cr, cn, et, ed []byte
	if e.Cusec != nil {
		cu = der.Ctx(3, der.Int(int64(*e.Cusec)))
	}
	if e.CRealm != nil {
		cr = der.Ctx(7, der.GeneralString(*e.CRealm))
	}
	if e.CName != nil {
		cn = der.Ctx(8, e.CName.Enc())
	}
	if e.EText != nil {
		et = der.Ctx(11, der.GeneralString(*e.EText))
	}
	if e.EData != nil {
		ed = der.Ctx(12, der.OctetString(e.EData))
	}
	return der.App(MsgKrbError, der.Seq(
		der.Ctx(0, der.Int(5)),
		der.Ctx(1, der.Int(MsgKrbError)),
		optTime(2, e.CTime),
		cu,
		der.Ctx(4, der.GenTime(e.STime)),
		der.Ctx(5, der.Int(int64(e.Susec))),
		der.Ctx(6, der.Int(int64(e.Code))),
		cr, cn,
		der.Ctx(9, der.GeneralString(e.Realm)),
		der.Ctx(10, e.SName.Enc()),
		et, ed,
	))
}

// AP-REP
type EncAPRepPart struct {
	CTime     time.Time
	Cusec     int
	Subkey    *EncryptionKey
	SeqNumber *int64
}

func (p EncAPRepPart) EncBytes() []byte {
	var sk, sq []byte
	if p.Subkey != nil {
		sk = der.Ctx(2, p.Subkey.Enc())
	}
	if p.SeqNumber != nil {
		sq = der.Ctx(3, der.Int(*p.SeqNumber))
	}
	return der.App(27, der.Seq(der.Ctx(0, der.GenTime(p.CTime)), der.Ctx(1, der.Int(int64(p.Cusec))), sk, sq))
}

func EncAPRep(enc EncryptedData) []byte {
	return der.App(MsgAPRep, der.Seq(der.Ctx(0, der.Int(5)), der.Ctx(1, der.Int(MsgAPRep)), der.Ctx(2, enc.Enc())))
}

// error codes used by the reference KDC
const (
	ErrNameExp           = 1
	ErrCPrincipalUnknown = 6
	ErrSPrincipalUnknown = 7
	ErrNeverValid        = 11
	ErrPolicy            = 12
	ErrBadOption         = 13
	ErrEtypeNoSupp       = 14
	ErrPreauthFailed     = 24
	ErrPreauthRequired   = 25
	ErrTktExpired        = 32
	ErrSkew              = 37
	ErrModified          = 41
	ErrResponseTooBig    = 52
	ErrGeneric           = 60
	ErrWrongRealm        = 68
)
