package rk

import "encoding/binary"

// KeytabEntry is one key of a keytab file.
type KeytabEntry struct {
	Principal PrincipalName
	Realm     string
	Kvno      uint32
	Key       EncryptionKey
	Timestamp uint32
}

// WriteKeytab renders a version-2 (big-endian) keytab file as MIT writes it: 8-bit and 32-bit kvno.
func WriteKeytab(es []KeytabEntry) []byte {
	out := []byte{5, 2}
	cs := func(b []byte, s string) []byte {
		b = binary.BigEndian.AppendUint16(b, uint16(len(s)))
		return append(b, s...)
	}
	for _, e := range es {
		var b []byte
		b = binary.BigEndian.AppendUint16(b, uint16(len(e.Principal.Names)))
		b = cs(b, e.Realm)
		for _, n := range e.Principal.Names {
			b = cs(b, n)
		}
		b = binary.BigEndian.AppendUint32(b, uint32(e.Principal.Type))
		b = binary.BigEndian.AppendUint32(b, e.Timestamp)
		b = append(b, byte(e.Kvno))
		b = binary.BigEndian.AppendUint16(b, uint16(e.Key.Etype))
		b = binary.BigEndian.AppendUint16(b, uint16(len(e.Key.Value)))
		b = append(b, e.Key.Value...)
		b = binary.BigEndian.AppendUint32(b, e.Kvno)
		out = binary.BigEndian.AppendUint32(out, uint32(len(b)))
		out = append(out, b...)
	}
	return out
}

// CCacheCred is one credential of a credential cache file.
type CCacheCred struct {
	Client, Server       PrincipalName
	CRealm, SRealm       string
	Key                  EncryptionKey
	Auth, Start, End, RT uint32 // seconds since the epoch (0 = unset)
	Flags                uint32
	Addresses            []HostAddress
	Ticket               []byte
}

// WriteCCache renders a version-4 credential cache file as MIT writes it (big-endian, header with
// a zero KDC time offset).
func WriteCCache(defName PrincipalName, defRealm string, creds []CCacheCred) []byte {
	out := []byte{5, 4}
	out = binary.BigEndian.AppendUint16(out, 12)
	out = binary.BigEndian.AppendUint16(out, 1) // tag: KDC time offset
	out = binary.BigEndian.AppendUint16(out, 8)
	out = append(out, 0, 0, 0, 0, 0, 0, 0, 0)
	data := func(b []byte, d []byte) []byte {
		b = binary.BigEndian.AppendUint32(b, uint32(len(d)))
		return append(b, d...)
	}
	princ := func(b []byte, n PrincipalName, realm string) []byte {
		b = binary.BigEndian.AppendUint32(b, uint32(n.Type))
		b = binary.BigEndian.AppendUint32(b, uint32(len(n.Names)))
		b = data(b, []byte(realm))
		for _, c := range n.Names {
			b = data(b, []byte(c))
		}
		return b
	}
	out = princ(out, defName, defRealm)
	for _, c := range creds {
		out = princ(out, c.Client, c.CRealm)
		out = princ(out, c.Server, c.SRealm)
		out = binary.BigEndian.AppendUint16(out, uint16(c.Key.Etype))
		out = data(out, c.Key.Value)
		for _, t := range []uint32{c.Auth, c.Start, c.End, c.RT} {
			out = binary.BigEndian.AppendUint32(out, t)
		}
		out = append(out, 0) // is_skey
		out = binary.BigEndian.AppendUint32(out, c.Flags)
		out = binary.BigEndian.AppendUint32(out, uint32(len(c.Addresses)))
		for _, a := range c.Addresses {
			out = binary.BigEndian.AppendUint16(out, uint16(a.Type))
			out = data(out, a.Addr)
		}
		out = binary.BigEndian.AppendUint32(out, 0) // authdata
		out = data(out, c.Ticket)
		out = data(out, nil) // second ticket
	}
	return out
}
