package rk

import "encoding/binary"

// KeytabEntry is one key of a keytab file.
type KeytabEntry struct {
	Principal PrincipalName
	Realm     string
	Kvno      uint32
	Key       EncryptionKey
	Timestamp uint32
}

// WriteKeytab renders a version-2 (big-endian) keytab file as MIT writes it: 8-bit and 32-bit kvno.
func WriteKeytab(es []KeytabEntry) []byte {
	out := []byte{5, 2}
	cs := func(b []byte, s string) []byte {
		b = binary.BigEndian.AppendUint16(b, uint16(len(s)))
		return append(b, s...)
	}
	for _, e := range es {
		var b []byte
		b = binary.BigEndian.AppendUint16(b, uint16(len(e.Principal.Names)))
		b = cs(b, e.Realm)
		for _, n := range e.Principal.Names {
			b = cs(b, n)
		}
		b = binary.BigEndian.AppendUint32(b, uint32(e.Principal.Type))
		b = binary.BigEndian.AppendUint32(b, e.Timestamp)
		b = append(b, byte(e.Kvno))
		b = binary.BigEndian.AppendUint16(b, uint16(e.Key.Etype))
		b = binary.BigEndian.AppendUint16(b, uint16(len(e.Key.Value)))
		b = append(b, e.Key.Value...)
		b = binary.BigEndian.AppendUint32(b, e.Kvno)
		out = binary.BigEndian.AppendUint32(out, uint32(len(b)))
		out = append(out, b...)
	}
	return out
}
