package rk

import (
	"testing"
	"time"

	"github.com/jcmturner/gokrb5/v8/keytab"
	"github.com/jcmturner/gokrb5/v8/messages"
	"github.com/jcmturner/gokrb5/v8/service"
	"verifsim/refkrb/rcrypto"
)

// development-time differential test: what rk mints, gokrb5 accepts (real clock, no simulation).
func TestMintedAPReqAcceptedByGokrb5(t *testing.T) {
	for _, et := range rcrypto.AllEtypes {
		skey := EncryptionKey{int32(et), mustKey(et, 1)}
		sess := EncryptionKey{int32(et), mustKey(et, 2)}
		now := time.Now().UTC().Truncate(time.Second)
		end := now.Add(time.Hour)
		etp := EncTicketPart{Flags: Bit(FlagInitial), Key: sess, CRealm: "SIM.TEST", CName: ParseName("alice"),
			AuthTime: now, StartTime: &now, EndTime: end}
		conf := make([]byte, rcrypto.ConfounderSize(et))
		enc, err := Seal(skey, KUTicket, etp.EncBytes(), conf, 3, true)
		if err != nil {
			t.Fatal(err)
		}
		tkt := Ticket{Realm: "SIM.TEST", SName: ParseName("HTTP/host.sim.test"), Enc: enc}
		au := Authenticator{CRealm: "SIM.TEST", CName: ParseName("alice"), Cusec: 100 + et, CTime: now}
		ae, err := Seal(sess, KUAPReqAuth, au.EncBytes(), conf, 0, false)
		if err != nil {
			t.Fatal(err)
		}
		ap := APReq{Ticket: tkt, Auth: ae}
		kt := keytab.New()
		if err := kt.Unmarshal(WriteKeytab([]KeytabEntry{{Principal: tkt.SName, Realm: "SIM.TEST", Kvno: 3, Key: skey}})); err != nil {
			t.Fatal(err)
		}
		var g messages.APReq
		if err := g.Unmarshal(ap.EncBytes()); err != nil {
			t.Fatalf("etype %d: %v", et, err)
		}
		ok, creds, err := service.VerifyAPREQ(&g, service.NewSettings(kt, service.DecodePAC(false)))
		if !ok || err != nil {
			t.Fatalf("etype %d: not accepted: %v", et, err)
		}
		if creds.UserName() != "alice" || creds.Domain() != "SIM.TEST" {
			t.Fatalf("identity %s@%s", creds.UserName(), creds.Domain())
		}
		// and the way back: rk decodes what gokrb5 re-encodes
		gb, err := g.Marshal()
		if err != nil {
			t.Fatal(err)
		}
		back, err := DecAPReq(gb)
		if err != nil {
			t.Fatalf("etype %d: rk cannot decode gokrb5's AP-REQ: %v", et, err)
		}
		pt, err := Open(back.Ticket.Enc, skey, KUTicket)
		if err != nil {
			t.Fatal(err)
		}
		p2, err := DecEncTicketPart(pt)
		if err != nil || !p2.EndTime.Equal(end) || p2.CName.String() != "alice" {
			t.Fatalf("etype %d: round trip: %v %+v", et, err, p2)
		}
	}
}

func mustKey(et int, seed byte) []byte {
	s := make([]byte, rcrypto.SeedSize(et))
	for i := range s {
		s[i] = seed + byte(i)*7
	}
	k, err := rcrypto.RandomToKey(et, s)
	if err != nil {
		panic(err)
	}
	return k
}
