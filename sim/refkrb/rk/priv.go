package rk

import (
	"encoding/binary"
	"errors"
	"fmt"
	"time"

	"verifsim/refkrb/der"
)

// KRB-PRIV (RFC 4120 5.7.1) and the change-password protocol's framing (RFC 3244 section 2), as far
// as a reference kpasswd server needs them.

type EncKrbPrivPart struct {
	UserData  []byte
	Timestamp *time.Time
	Usec      *int
	SeqNumber *int64
	SAddress  HostAddress
	RAddress  *HostAddress
}

func encAddr(a HostAddress) []byte {
	return der.Seq(der.Ctx(0, der.Int(int64(a.Type))), der.Ctx(1, der.OctetString(a.Addr)))
}

func decAddr(n *der.Node) (HostAddress, error) {
	var a HostAddress
	t, err := n.Must(0)
	if err != nil {
		return a, err
	}
	tv, err := t.Int()
	if err != nil {
		return a, err
	}
	v, err := n.Must(1)
	if err != nil {
		return a, err
	}
	b, err := v.Octets()
	if err != nil {
		return a, err
	}
	return HostAddress{Type: int32(tv), Addr: b}, nil
}

func (p EncKrbPrivPart) EncBytes() []byte {
	var ts, us, sq, ra []byte
	if p.Timestamp != nil {
		ts = der.Ctx(1, der.GenTime(*p.Timestamp))
	}
	if p.Usec != nil {
		us = der.Ctx(2, der.Int(int64(*p.Usec)))
	}
	if p.SeqNumber != nil {
		sq = der.Ctx(3, der.Int(*p.SeqNumber))
	}
	if p.RAddress != nil {
		ra = der.Ctx(5, encAddr(*p.RAddress))
	}
	return der.App(28, der.Seq(der.Ctx(0, der.OctetString(p.UserData)), ts, us, sq, der.Ctx(4, encAddr(p.SAddress)), ra))
}

func DecEncKrbPrivPart(b []byte) (EncKrbPrivPart, error) {
	var p EncKrbPrivPart
	n, _, err := der.Parse(b) // ciphers may leave padding behind the plaintext
	if err != nil {
		return p, err
	}
	if !n.IsApp(28) {
		return p, errors.New("EncKrbPrivPart: wrong application tag")
	}
	s, err := n.Inner()
	if err != nil {
		return p, err
	}
	u, err := s.Must(0)
	if err != nil {
		return p, err
	}
	if p.UserData, err = u.Octets(); err != nil {
		return p, err
	}
	if f, _ := s.Field(1); f != nil {
		t, err := f.Time()
		if err != nil {
			return p, err
		}
		p.Timestamp = &t
	}
	if f, _ := s.Field(2); f != nil {
		v, err := f.Int()
		if err != nil {
			return p, err
		}
		iv := int(v)
		p.Usec = &iv
	}
	if f, _ := s.Field(3); f != nil {
		v, err := f.Int()
		if err != nil {
			return p, err
		}
		p.SeqNumber = &v
	}
	if f, _ := s.Field(4); f != nil {
		// gokrb5 sends an s-address with neither type nor address; a server has nothing to compare
		// it with on a simulated network, so it is decoded leniently and not judged
		if a, err := decAddr(f); err == nil {
			p.SAddress = a
		}
	}
	return p, nil
}

// EncKRBPriv encodes the KRB-PRIV message around an encrypted part.
func EncKRBPriv(enc EncryptedData) []byte {
	return der.App(MsgKrbPriv, der.Seq(der.Ctx(0, der.Int(5)), der.Ctx(1, der.Int(MsgKrbPriv)), der.Ctx(3, enc.Enc())))
}

// DecKRBPriv returns the encrypted part of a KRB-PRIV message.
func DecKRBPriv(b []byte) (EncryptedData, error) {
	var e EncryptedData
	n, err := der.ParseAll(b)
	if err != nil {
		return e, err
	}
	if !n.IsApp(MsgKrbPriv) {
		return e, errors.New("KRB-PRIV: wrong application tag")
	}
	s, err := n.Inner()
	if err != nil {
		return e, err
	}
	v, err := s.Must(0)
	if err != nil {
		return e, err
	}
	if vv, err := v.Int(); err != nil || vv != 5 {
		return e, errors.New("KRB-PRIV: pvno is not 5")
	}
	m, err := s.Must(1)
	if err != nil {
		return e, err
	}
	if mv, err := m.Int(); err != nil || mv != MsgKrbPriv {
		return e, errors.New("KRB-PRIV: msg-type is not 21")
	}
	en, err := s.Must(3)
	if err != nil {
		return e, err
	}
	return decEncData(en)
}

// ChangePasswdData is the user-data of a change-password request (RFC 3244 section 2).
type ChangePasswdData struct {
	NewPasswd []byte
	TargName  *PrincipalName
	TargRealm string
}

func DecChangePasswdData(b []byte) (ChangePasswdData, error) {
	var c ChangePasswdData
	n, err := der.ParseAll(b)
	if err != nil {
		return c, err
	}
	p, err := n.Must(0)
	if err != nil {
		return c, err
	}
	if c.NewPasswd, err = p.Octets(); err != nil {
		return c, err
	}
	if f, _ := n.Field(1); f != nil {
		pn, err := decName(f)
		if err != nil {
			return c, err
		}
		c.TargName = &pn
	}
	if f, _ := n.Field(2); f != nil {
		if c.TargRealm, err = f.GenString(); err != nil {
			return c, err
		}
	}
	return c, nil
}

// KpasswdRequest is a change-password request taken apart.
type KpasswdRequest struct {
	Version int
	APReq   []byte
	Priv    []byte
}

// DecKpasswdRequest splits the framing: message length, version, AP-REQ length, AP-REQ, KRB-PRIV.
func DecKpasswdRequest(b []byte) (KpasswdRequest, error) {
	var r KpasswdRequest
	if len(b) < 6 {
		return r, errors.New("kpasswd request: shorter than its header")
	}
	if ml := int(binary.BigEndian.Uint16(b[0:2])); ml != len(b) {
		return r, fmt.Errorf("kpasswd request: message length field %d, %d bytes received", ml, len(b))
	}
	r.Version = int(binary.BigEndian.Uint16(b[2:4]))
	al := int(binary.BigEndian.Uint16(b[4:6]))
	if al == 0 || 6+al > len(b) {
		return r, fmt.Errorf("kpasswd request: AP-REQ length %d does not fit", al)
	}
	r.APReq, r.Priv = b[6:6+al], b[6+al:]
	return r, nil
}

// EncKpasswdReply frames a reply; an empty apRep marks a KRB-ERROR body.
func EncKpasswdReply(apRep, body []byte) []byte {
	out := make([]byte, 6, 6+len(apRep)+len(body))
	binary.BigEndian.PutUint16(out[0:2], uint16(6+len(apRep)+len(body)))
	binary.BigEndian.PutUint16(out[2:4], 1)
	binary.BigEndian.PutUint16(out[4:6], uint16(len(apRep)))
	out = append(out, apRep...)
	return append(out, body...)
}
