// Package rk is the reference implementation of the RFC 4120 message formats: plain value
// structs with an encoder and a decoder each, written from the RFC's ASN.1 module on top of
// refkrb/der and refkrb/rcrypto.  It shares no code with gokrb5.
package rk

import (
	"errors"
	"fmt"
	"strings"
	"time"

	"verifsim/refkrb/der"
	"verifsim/refkrb/rcrypto"
)

// key usages (RFC 4120 7.5.1)
const (
	KUPAEncTS          = 1
	KUTicket           = 2
	KUASRepEncPart     = 3
	KUTGSReqAuthCksum  = 6
	KUTGSReqAuth       = 7
	KUTGSRepEncSession = 8
	KUTGSRepEncSubkey  = 9
	KUAPReqAuthCksum   = 10
	KUAPReqAuth        = 11
	KUAPRepEncPart     = 12
	KUKrbPrivEncPart   = 13
)

// message types / application tags
const (
	MsgASReq    = 10
	MsgASRep    = 11
	MsgTGSReq   = 12
	MsgTGSRep   = 13
	MsgAPReq    = 14
	MsgAPRep    = 15
	MsgKrbPriv  = 21
	MsgKrbError = 30
)

// ticket / kdc-option flag bits (bit 0 = most significant)
const (
	FlagForwardable  = 1
	FlagForwarded    = 2
	FlagProxiable    = 3
	FlagProxy        = 4
	FlagMayPostdate  = 5
	FlagPostdated    = 6
	FlagInvalid      = 7
	FlagRenewable    = 8
	FlagInitial      = 9
	FlagPreAuthent   = 10
	FlagCanonicalize = 15
	FlagRenewableOK  = 27
	FlagRenew        = 30
	FlagValidate     = 31
)

func Bit(n int) uint32 { return 1 << (31 - uint(n)) }

type PrincipalName struct {
	Type  int32
	Names []string
}

func ParseName(s string) PrincipalName {
	return PrincipalName{Type: 1, Names: strings.Split(s, "/")}
}

func (p PrincipalName) String() string { return strings.Join(p.Names, "/") }

func (p PrincipalName) Equal(q PrincipalName) bool {
	if len(p.Names) != len(q.Names) {
		return false
	}
	for i := range p.Names {
		if p.Names[i] != q.Names[i] {
			return false
		}
	}
	return true
}

func (p PrincipalName) Enc() []byte {
	var names [][]byte
	for _, n := range p.Names {
		names = append(names, der.GeneralString(n))
	}
	return der.Seq(der.Ctx(0, der.Int(int64(p.Type))), der.Ctx(1, der.Seq(names...)))
}

func decName(n *der.Node) (PrincipalName, error) {
	var p PrincipalName
	if n == nil || n.Tag != der.TagSeq {
		return p, errors.New("PrincipalName: not a SEQUENCE")
	}
	t, err := n.Must(0)
	if err != nil {
		return p, err
	}
	tv, err := t.Int()
	if err != nil {
		return p, err
	}
	p.Type = int32(tv)
	ns, err := n.Must(1)
	if err != nil {
		return p, err
	}
	ks, err := ns.Kids()
	if err != nil {
		return p, err
	}
	for _, k := range ks {
		s, err := k.GenString()
		if err != nil {
			return p, err
		}
		p.Names = append(p.Names, s)
	}
	return p, nil
}

type HostAddress struct {
	Type int32
	Addr []byte
}

func encAddrs(as []HostAddress) []byte {
	if as == nil {
		return nil
	}
	var items [][]byte
	for _, a := range as {
		items = append(items, der.Seq(der.Ctx(0, der.Int(int64(a.Type))), der.Ctx(1, der.OctetString(a.Addr))))
	}
	return der.Seq(items...)
}

func decAddrs(n *der.Node) ([]HostAddress, error) {
	if n == nil {
		return nil, nil
	}
	ks, err := n.Kids()
	if err != nil {
		return nil, err
	}
	out := []HostAddress{}
	for _, k := range ks {
		t, err := k.Must(0)
		if err != nil {
			return nil, err
		}
		tv, err := t.Int()
		if err != nil {
			return nil, err
		}
		a, err := k.Must(1)
		if err != nil {
			return nil, err
		}
		ab, err := a.Octets()
		if err != nil {
			return nil, err
		}
		out = append(out, HostAddress{int32(tv), ab})
	}
	return out, nil
}

type AuthDataEntry struct {
	Type int32
	Data []byte
}

func EncAuthData(ad []AuthDataEntry) []byte {
	if ad == nil {
		return nil
	}
	var items [][]byte
	for _, a := range ad {
		items = append(items, der.Seq(der.Ctx(0, der.Int(int64(a.Type))), der.Ctx(1, der.OctetString(a.Data))))
	}
	return der.Seq(items...)
}

type EncryptionKey struct {
	Etype int32
	Value []byte
}

func (k EncryptionKey) Enc() []byte {
	return der.Seq(der.Ctx(0, der.Int(int64(k.Etype))), der.Ctx(1, der.OctetString(k.Value)))
}

func decKey(n *der.Node) (EncryptionKey, error) {
	var k EncryptionKey
	t, err := n.Must(0)
	if err != nil {
		return k, err
	}
	tv, err := t.Int()
	if err != nil {
		return k, err
	}
	v, err := n.Must(1)
	if err != nil {
		return k, err
	}
	vb, err := v.Octets()
	if err != nil {
		return k, err
	}
	return EncryptionKey{int32(tv), append([]byte{}, vb...)}, nil
}

type Checksum struct {
	Type int32
	Sum  []byte
}

func (c Checksum) Enc() []byte {
	return der.Seq(der.Ctx(0, der.Int(int64(c.Type))), der.Ctx(1, der.OctetString(c.Sum)))
}

type EncryptedData struct {
	Etype  int32
	Kvno   int64
	HasKvn bool
	Cipher []byte
}

func (e EncryptedData) Enc() []byte {
	var kv []byte
	if e.HasKvn {
		kv = der.Ctx(1, der.Int(e.Kvno))
	}
	return der.Seq(der.Ctx(0, der.Int(int64(e.Etype))), kv, der.Ctx(2, der.OctetString(e.Cipher)))
}

func decEncData(n *der.Node) (EncryptedData, error) {
	var e EncryptedData
	if n == nil || n.Tag != der.TagSeq {
		return e, errors.New("EncryptedData: not a SEQUENCE")
	}
	t, err := n.Must(0)
	if err != nil {
		return e, err
	}
	tv, err := t.Int()
	if err != nil {
		return e, err
	}
	e.Etype = int32(tv)
	if k, err := n.Field(1); err != nil {
		return e, err
	} else if k != nil {
		e.Kvno, err = k.Int()
		if err != nil {
			return e, err
		}
		e.HasKvn = true
	}
	c, err := n.Must(2)
	if err != nil {
		return e, err
	}
	cb, err := c.Octets()
	if err != nil {
		return e, err
	}
	e.Cipher = append([]byte{}, cb...)
	return e, nil
}

// Seal encrypts plaintext into an EncryptedData.
func Seal(key EncryptionKey, usage uint32, plaintext, confounder []byte, kvno int64, hasKvno bool) (EncryptedData, error) {
	c, err := rcrypto.Encrypt(int(key.Etype), key.Value, usage, plaintext, confounder)
	if err != nil {
		return EncryptedData{}, err
	}
	return EncryptedData{Etype: key.Etype, Kvno: kvno, HasKvn: hasKvno, Cipher: c}, nil
}

// Open decrypts an EncryptedData.
func Open(e EncryptedData, key EncryptionKey, usage uint32) ([]byte, error) {
	if e.Etype != key.Etype {
		return nil, fmt.Errorf("etype %d sealed, key has etype %d", e.Etype, key.Etype)
	}
	return rcrypto.Decrypt(int(key.Etype), key.Value, usage, e.Cipher)
}

type Ticket struct {
	Realm string
	SName PrincipalName
	Enc   EncryptedData
	Extra []byte // raw elements appended inside the ticket's SEQUENCE after enc-part (a forger's addition; nil for honest tickets)
}

func (t Ticket) EncBytes() []byte {
	return der.App(1, der.Seq(der.Ctx(0, der.Int(5)), der.Ctx(1, der.GeneralString(t.Realm)), der.Ctx(2, t.SName.Enc()), der.Ctx(3, t.Enc.Enc()), t.Extra))
}

func DecTicket(n *der.Node) (Ticket, error) {
	var t Ticket
	if n == nil || !n.IsApp(1) {
		return t, errors.New("Ticket: wrong application tag")
	}
	s, err := n.Inner()
	if err != nil {
		return t, err
	}
	v, err := s.Must(0)
	if err != nil {
		return t, err
	}
	if vv, err := v.Int(); err != nil || vv != 5 {
		return t, errors.New("Ticket: tkt-vno is not 5")
	}
	r, err := s.Must(1)
	if err != nil {
		return t, err
	}
	if t.Realm, err = r.GenString(); err != nil {
		return t, err
	}
	sn, err := s.Must(2)
	if err != nil {
		return t, err
	}
	if t.SName, err = decName(sn); err != nil {
		return t, err
	}
	e, err := s.Must(3)
	if err != nil {
		return t, err
	}
	t.Enc, err = decEncData(e)
	return t, err
}

type EncTicketPart struct {
	Flags     uint32
	Key       EncryptionKey
	CRealm    string
	CName     PrincipalName
	TrType    int32
	TrData    []byte
	AuthTime  time.Time
	StartTime *time.Time
	EndTime   time.Time
	RenewTill *time.Time
	CAddr     []HostAddress // nil = absent
	AuthData  []AuthDataEntry
}

func optTime(tag int, t *time.Time) []byte {
	if t == nil {
		return nil
	}
	return der.Ctx(tag, der.GenTime(*t))
}

func (p EncTicketPart) EncBytes() []byte {
	return der.App(3, der.Seq(
		der.Ctx(0, der.Flags32(p.Flags)),
		der.Ctx(1, p.Key.Enc()),
		der.Ctx(2, der.GeneralString(p.CRealm)),
		der.Ctx(3, p.CName.Enc()),
		der.Ctx(4, der.Seq(der.Ctx(0, der.Int(int64(p.TrType))), der.Ctx(1, der.OctetString(p.TrData)))),
		der.Ctx(5, der.GenTime(p.AuthTime)),
		optTime(6, p.StartTime),
		der.Ctx(7, der.GenTime(p.EndTime)),
		optTime(8, p.RenewTill),
		der.Ctx(9, encAddrs(p.CAddr)),
		der.Ctx(10, EncAuthData(p.AuthData)),
	))
}

func DecEncTicketPart(b []byte) (EncTicketPart, error) {
	var p EncTicketPart
	n, _, err := der.Parse(b) // des3 leaves zero padding behind the structure
	if err != nil {
		return p, err
	}
	if !n.IsApp(3) {
		return p, errors.New("EncTicketPart: wrong application tag")
	}
	s, err := n.Inner()
	if err != nil {
		return p, err
	}
	f, err := s.Must(0)
	if err != nil {
		return p, err
	}
	if p.Flags, err = f.Flags(); err != nil {
		return p, err
	}
	k, err := s.Must(1)
	if err != nil {
		return p, err
	}
	if p.Key, err = decKey(k); err != nil {
		return p, err
	}
	r, err := s.Must(2)
	if err != nil {
		return p, err
	}
	if p.CRealm, err = r.GenString(); err != nil {
		return p, err
	}
	c, err := s.Must(3)
	if err != nil {
		return p, err
	}
	if p.CName, err = decName(c); err != nil {
		return p, err
	}
	at, err := s.Must(5)
	if err != nil {
		return p, err
	}
	if p.AuthTime, err = at.Time(); err != nil {
		return p, err
	}
	if st, _ := s.Field(6); st != nil {
		t, err := st.Time()
		if err != nil {
			return p, err
		}
		p.StartTime = &t
	}
	et, err := s.Must(7)
	if err != nil {
		return p, err
	}
	if p.EndTime, err = et.Time(); err != nil {
		return p, err
	}
	if rt, _ := s.Field(8); rt != nil {
		t, err := rt.Time()
		if err != nil {
			return p, err
		}
		p.RenewTill = &t
	}
	ca, _ := s.Field(9)
	if p.CAddr, err = decAddrs(ca); err != nil {
		return p, err
	}
	return p, nil
}

type Authenticator struct {
	CRealm    string
	CName     PrincipalName
	Cksum     *Checksum
	Cusec     int
	CTime     time.Time
	Subkey    *EncryptionKey
	SeqNumber *int64
	AuthData  []AuthDataEntry
	// CTimeZoneMin != 0: ctime is written as local time with this zone offset (minutes) instead of Z
	CTimeZoneMin int
}

func (a Authenticator) EncBytes() []byte {
	var ck, sk, sq []byte
	ctime := der.GenTime(a.CTime)
	if a.CTimeZoneMin != 0 {
		ctime = der.GenTimeZone(a.CTime, a.CTimeZoneMin)
	}
	if a.Cksum != nil {
		ck = der.Ctx(3, a.Cksum.Enc())
	}
	if a.Subkey != nil {
		sk = der.Ctx(6, a.Subkey.Enc())
	}
	if a.SeqNumber != nil {
		sq = der.Ctx(7, der.Int(*a.SeqNumber))
	}
	return der.App(2, der.Seq(
		der.Ctx(0, der.Int(5)),
		der.Ctx(1, der.GeneralString(a.CRealm)),
		der.Ctx(2, a.CName.Enc()),
		ck,
		der.Ctx(4, der.Int(int64(a.Cusec))),
		der.Ctx(5, ctime),
		sk, sq,
		der.Ctx(8, EncAuthData(a.AuthData)),
	))
}

func DecAuthenticator(b []byte) (Authenticator, error) {
	var a Authenticator
	n, _, err := der.Parse(b)
	if err != nil {
		return a, err
	}
	if !n.IsApp(2) {
		return a, errors.New("Authenticator: wrong application tag")
	}
	s, err := n.Inner()
	if err != nil {
		return a, err
	}
	v, err := s.Must(0)
	if err != nil {
		return a, err
	}
	if vv, err := v.Int(); err != nil || vv != 5 {
		return a, errors.New("Authenticator: authenticator-vno is not 5")
	}
	r, err := s.Must(1)
	if err != nil {
		return a, err
	}
	if a.CRealm, err = r.GenString(); err != nil {
		return a, err
	}
	c, err := s.Must(2)
	if err != nil {
		return a, err
	}
	if a.CName, err = decName(c); err != nil {
		return a, err
	}
	if ck, _ := s.Field(3); ck != nil {
		t, err := ck.Must(0)
		if err != nil {
			return a, err
		}
		tv, err := t.Int()
		if err != nil {
			return a, err
		}
		sm, err := ck.Must(1)
		if err != nil {
			return a, err
		}
		sb, err := sm.Octets()
		if err != nil {
			return a, err
		}
		a.Cksum = &Checksum{int32(tv), append([]byte{}, sb...)}
	}
	cu, err := s.Must(4)
	if err != nil {
		return a, err
	}
	cuv, err := cu.Int()
	if err != nil {
		return a, err
	}
	a.Cusec = int(cuv)
	ct, err := s.Must(5)
	if err != nil {
		return a, err
	}
	if a.CTime, err = ct.Time(); err != nil {
		return a, err
	}
	if sk, _ := s.Field(6); sk != nil {
		k, err := decKey(sk)
		if err != nil {
			return a, err
		}
		a.Subkey = &k
	}
	if sq, _ := s.Field(7); sq != nil {
		v, err := sq.Int()
		if err != nil {
			return a, err
		}
		a.SeqNumber = &v
	}
	return a, nil
}

type APReq struct {
	APOptions uint32
	Ticket    Ticket
	Auth      EncryptedData
}

func (a APReq) EncBytes() []byte {
	return der.App(MsgAPReq, der.Seq(
		der.Ctx(0, der.Int(5)),
		der.Ctx(1, der.Int(MsgAPReq)),
		der.Ctx(2, der.Flags32(a.APOptions)),
		der.Ctx(3, a.Ticket.EncBytes()),
		der.Ctx(4, a.Auth.Enc()),
	))
}

func DecAPReq(b []byte) (APReq, error) {
	var a APReq
	n, err := der.ParseAll(b)
	if err != nil {
		return a, err
	}
	if !n.IsApp(MsgAPReq) {
		return a, errors.New("AP-REQ: wrong application tag")
	}
	s, err := n.Inner()
	if err != nil {
		return a, err
	}
	pv, err := s.Must(0)
	if err != nil {
		return a, err
	}
	if v, err := pv.Int(); err != nil || v != 5 {
		return a, errors.New("AP-REQ: pvno is not 5")
	}
	mt, err := s.Must(1)
	if err != nil {
		return a, err
	}
	if v, err := mt.Int(); err != nil || v != MsgAPReq {
		return a, errors.New("AP-REQ: wrong msg-type")
	}
	o, err := s.Must(2)
	if err != nil {
		return a, err
	}
	if a.APOptions, err = o.Flags(); err != nil {
		return a, err
	}
	t, err := s.Must(3)
	if err != nil {
		return a, err
	}
	if a.Ticket, err = DecTicket(t); err != nil {
		return a, err
	}
	e, err := s.Must(4)
	if err != nil {
		return a, err
	}
	a.Auth, err = decEncData(e)
	return a, err
}

type PAData struct {
	Type  int32
	Value []byte
}

func encPAs(pas []PAData) []byte {
	if pas == nil {
		return nil
	}
	var items [][]byte
	for _, p := range pas {
		items = append(items, der.Seq(der.Ctx(1, der.Int(int64(p.Type))), der.Ctx(2, der.OctetString(p.Value))))
	}
	return der.Seq(items...)
}

// EncPADataSeq encodes a bare SEQUENCE OF PA-DATA (the e-data of KDC_ERR_PREAUTH_REQUIRED).
func EncPADataSeq(pas []PAData) []byte {
	if pas == nil {
		pas = []PAData{}
	}
	return encPAs(pas)
}

func decPAs(n *der.Node) ([]PAData, error) {
	if n == nil {
		return nil, nil
	}
	ks, err := n.Kids()
	if err != nil {
		return nil, err
	}
	out := []PAData{}
	for _, k := range ks {
		t, err := k.Must(1)
		if err != nil {
			return nil, err
		}
		tv, err := t.Int()
		if err != nil {
			return nil, err
		}
		v, err := k.Must(2)
		if err != nil {
			return nil, err
		}
		vb, err := v.Octets()
		if err != nil {
			return nil, err
		}
		out = append(out, PAData{int32(tv), append([]byte{}, vb...)})
	}
	return out, nil
}

// PA-DATA types
const (
	PATGSReq      = 1
	PAEncTS       = 2
	PAPWSalt      = 3
	PAETypeInfo   = 11
	PAETypeInfo2  = 19
	PAReqEncPARep = 149
)

type ETypeInfo2Entry struct {
	Etype     int32
	Salt      *string
	S2KParams []byte // nil = absent
}

func EncETypeInfo2(es []ETypeInfo2Entry) []byte {
	var items [][]byte
	for _, e := range es {
		var salt, s2k []byte
		if e.Salt != nil {
			salt = der.Ctx(1, der.GeneralString(*e.Salt))
		}
		if e.S2KParams != nil {
			s2k = der.Ctx(2, der.OctetString(e.S2KParams))
		}
		items = append(items, der.Seq(der.Ctx(0, der.Int(int64(e.Etype))), salt, s2k))
	}
	return der.Seq(items...)
}

type ETypeInfoEntry struct {
	Etype int32
	Salt  []byte // nil = absent
}

func EncETypeInfo(es []ETypeInfoEntry) []byte {
	var items [][]byte
	for _, e := range es {
		var salt []byte
		if e.Salt != nil {
			salt = der.Ctx(1, der.OctetString(e.Salt))
		}
		items = append(items, der.Seq(der.Ctx(0, der.Int(int64(e.Etype))), salt))
	}
	return der.Seq(items...)
}

// DecPAEncTS decodes a decrypted PA-ENC-TS-ENC.
func DecPAEncTS(b []byte) (time.Time, int, error) {
	n, _, err := der.Parse(b)
	if err != nil {
		return time.Time{}, 0, err
	}
	t, err := n.Must(0)
	if err != nil {
		return time.Time{}, 0, err
	}
	tt, err := t.Time()
	if err != nil {
		return time.Time{}, 0, err
	}
	us := 0
	if u, _ := n.Field(1); u != nil {
		v, err := u.Int()
		if err != nil {
			return tt, 0, err
		}
		us = int(v)
	}
	return tt, us, nil
}

// DecEncData parses a bare EncryptedData.
func DecEncData(b []byte) (EncryptedData, error) {
	n, err := der.ParseAll(b)
	if err != nil {
		return EncryptedData{}, err
	}
	return decEncData(n)
}
