package rk

import (
	"errors"
	"fmt"

	"verifsim/refkrb/der"
)

// SPNEGO (RFC 4178) and the Kerberos 5 GSS-API mechanism token framing (RFC 4121 4.1).

var (
	OIDSPNEGO   = []int{1, 3, 6, 1, 5, 5, 2}
	OIDKRB5     = []int{1, 2, 840, 113554, 1, 2, 2}
	OIDMSKRB5   = []int{1, 2, 840, 48018, 1, 2, 2}
	OIDNTLM     = []int{1, 3, 6, 1, 4, 1, 311, 2, 2, 10}
	TokAPReq    = []byte{1, 0}
	TokAPRep    = []byte{2, 0}
	TokKRBError = []byte{3, 0}
)

const (
	OIDStrSPNEGO = "1.3.6.1.5.5.2"
	OIDStrKRB5   = "1.2.840.113554.1.2.2"
	OIDStrMSKRB5 = "1.2.840.48018.1.2.2"
)

// KRB5Token wraps a Kerberos message into the mechanism token: [APPLICATION 0] { OID, TOK_ID, msg }.
func KRB5Token(tokID []byte, msg []byte) []byte {
	return der.TLV(0x60, der.OID(OIDKRB5...), tokID, msg)
}

// NegTokenInit builds the initial SPNEGO token; mechToken nil = absent.
func NegTokenInit(mechs [][]int, mechToken []byte) []byte {
	var ms [][]byte
	for _, m := range mechs {
		ms = append(ms, der.OID(m...))
	}
	var mt []byte
	if mechToken != nil {
		mt = der.Ctx(2, der.OctetString(mechToken))
	}
	init := der.Seq(der.Ctx(0, der.Seq(ms...)), mt)
	return der.TLV(0x60, der.OID(OIDSPNEGO...), der.TLV(0xa0, init))
}

// NegTokenResp builds a response token (not wrapped in the GSS header, as on the wire).
func NegTokenResp(state int, supportedMech []int, responseToken []byte) []byte {
	var st, sm, rt []byte
	if state >= 0 {
		st = der.Ctx(0, der.Enum(state))
	}
	if supportedMech != nil {
		sm = der.Ctx(1, der.OID(supportedMech...))
	}
	if responseToken != nil {
		rt = der.Ctx(2, der.OctetString(responseToken))
	}
	return der.TLV(0xa1, der.Seq(st, sm, rt))
}

// ParsedInit is what an acceptor extracts from an initial token.
type ParsedInit struct {
	Mechs     []string
	MechToken []byte
}

// DecNegTokenInit parses a GSS-framed NegTokenInit.
func DecNegTokenInit(b []byte) (*ParsedInit, error) {
	n, err := der.ParseAll(b)
	if err != nil {
		return nil, err
	}
	if n.Tag != 0x60 {
		return nil, fmt.Errorf("spnego: tag %#x, want [APPLICATION 0]", n.Tag)
	}
	ks, err := n.Kids()
	if err != nil {
		return nil, err
	}
	if len(ks) != 2 {
		return nil, errors.New("spnego: InitialContextToken must hold an OID and a token")
	}
	oid, err := ks[0].OIDString()
	if err != nil {
		return nil, err
	}
	if oid != OIDStrSPNEGO {
		return nil, fmt.Errorf("spnego: mechanism OID %s is not SPNEGO", oid)
	}
	if ks[1].Tag != 0xa0 {
		return nil, errors.New("spnego: not a negTokenInit")
	}
	seq, err := ks[1].Inner()
	if err != nil {
		return nil, err
	}
	out := &ParsedInit{}
	ml, err := seq.Must(0)
	if err != nil {
		return nil, err
	}
	mks, err := ml.Kids()
	if err != nil {
		return nil, err
	}
	for _, m := range mks {
		s, err := m.OIDString()
		if err != nil {
			return nil, err
		}
		out.Mechs = append(out.Mechs, s)
	}
	if mt, _ := seq.Field(2); mt != nil {
		if out.MechToken, err = mt.Octets(); err != nil {
			return nil, err
		}
	}
	return out, nil
}

// DecKRB5Token parses the mechanism token framing and returns TOK_ID and the inner message.
func DecKRB5Token(b []byte) (tokID []byte, msg []byte, err error) {
	n, err := der.ParseAll(b)
	if err != nil {
		return nil, nil, err
	}
	if n.Tag != 0x60 {
		return nil, nil, fmt.Errorf("krb5 token: tag %#x, want [APPLICATION 0]", n.Tag)
	}
	oidNode, rest, err := der.Parse(n.Content)
	if err != nil {
		return nil, nil, err
	}
	oid, err := oidNode.OIDString()
	if err != nil {
		return nil, nil, err
	}
	if oid != OIDStrKRB5 {
		return nil, nil, fmt.Errorf("krb5 token: OID %s", oid)
	}
	if len(rest) < 2 {
		return nil, nil, errors.New("krb5 token: no TOK_ID")
	}
	return rest[:2], rest[2:], nil
}
