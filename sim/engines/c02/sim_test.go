package c02

import (
	"encoding/json"
	"fmt"
	"sort"
	"strings"
	"testing"
	"time"

	"github.com/anishathalye/porcupine"
	"github.com/jcmturner/gokrb5/v8/service"
	"github.com/jcmturner/gokrb5/v8/types"

	"verifsim/core"
	"verifsim/engine"
	"verifsim/simrt"
)

type eng struct{}

func (eng) Meta() core.Meta                             { return Meta() }
func (eng) Gen(c, tier string) (json.RawMessage, error) { return Gen(c, tier) }
func (eng) Run(tape json.RawMessage, res *core.Result)  { run(tape, res) }
func TestSim(t *testing.T)                              { engine.Main(t, eng{}) }

type rec struct {
	Task     int    `json:"task"`
	Idx      int    `json:"idx"`
	ID       string `json:"id"`  // client|ct_us|svc
	Key      string `json:"key"` // client|ct_us
	Invoke   int64  `json:"invoke_ns"`
	Return   int64  `json:"return_ns"`
	Out      string `json:"out"` // fresh | replay | skew | clear
	InWindow bool   `json:"in_window"`
	SvcNT    int32  `json:"svc_nt,omitempty"`
	Alt      bool   `json:"alt,omitempty"`
	Alt2     bool   `json:"alt2,omitempty"`
	SkewNs   int64  `json:"skew_ns"` // clock skew of the settings object that verified
	// InWindowRet: the client time still passes the skew test of the settings used when the call returns
	InWindowRet bool   `json:"in_window_at_return"`
	ZoneMin     int    `json:"zone_min,omitempty"`
	Relabel     string `json:"relabel,omitempty"`
	Kvno        int    `json:"kvno,omitempty"`
	CtUs        int64  `json:"ct_us"`
}

// clientOf splits a client of the tape into realm and name components.
func clientOf(s string) (string, []string) {
	realm := "SIM.TEST"
	if i := strings.Index(s, "@"); i >= 0 {
		realm, s = s[i+1:], s[:i]
	}
	if strings.Contains(s, "%") {
		return realm, []string{strings.ReplaceAll(s, "%", "/")}
	}
	return realm, strings.Split(s, "/")
}

func pname(s string) types.PrincipalName {
	return types.PrincipalName{NameType: 1, NameString: strings.Split(s, "/")}
}

func pnameT(s string, nt int32) types.PrincipalName {
	if nt == 0 {
		nt = 1
	}
	return types.PrincipalName{NameType: nt, NameString: strings.Split(s, "/")}
}

func run(tapeJSON json.RawMessage, res *core.Result) {
	var tp Tape
	if err := json.Unmarshal(tapeJSON, &tp); err != nil {
		res.Verdict, res.Harness = "invalid", err.Error()
		return
	}
	nops := 0
	for _, t := range tp.Tasks {
		nops += len(t.Ops)
		if t.ID < 1 || t.ID > 8 {
			res.Verdict, res.Harness = "invalid", "task id"
			return
		}
	}
	if tp.AltMs < 0 || tp.AltMs > 2*3600*1000 || tp.Alt2Ms < 0 || tp.Alt2Ms > 48*3600*1000 || (tp.Alt2Ms != 0 && (tp.Alt2Ms <= tp.AltMs || tp.Alt2Ms <= tp.SkewS*1000)) {
		res.Verdict, res.Harness = "invalid", "alt skew"
		return
	}
	if tp.SkewS < 1 || tp.SkewS > 3600 || len(tp.Tasks) < 1 || len(tp.Tasks) > 4 || nops < 1 || nops > 400 {
		res.Verdict, res.Harness = "invalid", "shape"
		return
	}
	seen := map[int]bool{}
	for _, t := range tp.Tasks {
		if seen[t.ID] {
			res.Verdict, res.Harness = "invalid", "duplicate task"
			return
		}
		seen[t.ID] = true
	}
	skew := time.Duration(tp.SkewS) * time.Second
	// the world starts one hour into the bubble; client times are relative to that instant
	simrt.SleepExact(int64(time.Hour))
	base := time.Now().UTC().Truncate(time.Microsecond)
	var w *verifyWorld
	if tp.Path == "verify" {
		var err error
		w, err = newVerifyWorld(&tp, base)
		if err != nil {
			res.Verdict, res.Harness = "harness-error", "verify world: "+err.Error()
			return
		}
	}
	// a cache lock that is never released again: every later presentation waits for ever
	engine.AbortHook = func(kind, detail string, r *core.Result) {
		if kind != "lock-stuck" {
			r.Verdict, r.Harness = "harness-error", kind+": "+detail
			return
		}
		site := detail
		if i := strings.Index(site, " owner="); i > 0 {
			site = site[:i]
		}
		engine.Violate(r, "presentation-never-returns|lock-stuck|"+site, map[string]string{"kind": kind, "detail": detail})
	}
	rc := service.GetReplayCache(skew) // created by task 0; its clean-up goroutine becomes a task on first lock
	altSkew := time.Duration(tp.AltMs) * time.Millisecond
	alt2Skew := time.Duration(tp.Alt2Ms) * time.Millisecond
	// a second settings object of the process becomes known to the cache when it first verifies
	// (service.VerifyAPREQ asks for the cache with its own skew on every call)
	recs := make([][]rec, len(tp.Tasks))
	var ts []*simrt.Task
	for ti, tt := range tp.Tasks {
		ti, tt := ti, tt
		ts = append(ts, simrt.Spawn(tt.ID, fmt.Sprintf("presenter%d", tt.ID), tt.Sched, func() {
			for oi, op := range tt.Ops {
				if op.ThinkNs > 0 {
					simrt.SleepNs(op.ThinkNs, "think")
				}
				switch op.Op {
				case "present":
					ct := base.Add(time.Duration(op.CtUs) * time.Microsecond)
					r := rec{Task: tt.ID, Idx: oi, ID: fmt.Sprintf("%s|%d|%s", op.Client, op.CtUs, op.Svc), Key: fmt.Sprintf("%s|%d", op.Client, op.CtUs)}
					r.CtUs = op.CtUs
					r.Invoke = simrt.NowNs()
					now := time.Now().UTC()
					dlt := now.Sub(ct)
					if dlt < 0 {
						dlt = -dlt
					}
					useSkew := skew
					if op.Alt2 && tp.Alt2Ms != 0 {
						useSkew = alt2Skew
						r.Alt2 = true
					} else if op.Alt && tp.AltMs != 0 && (tp.AltKt == "" || tp.AltKt == op.Svc || w == nil) {
						// (settings that override the keytab principal verify tickets of that service only)
						useSkew = altSkew
						r.Alt = true
					}
					r.SvcNT, r.ZoneMin, r.SkewNs = op.SvcNT, op.ZoneMin, int64(useSkew)
					if w != nil {
						r.Kvno = op.Kvno
					}
					if w != nil && RelabelApplies(&tp, op, r.Alt) {
						r.Relabel = op.Relabel
					}
					r.InWindow = dlt <= useSkew
					simrt.Logf("invoke present %s in_window=%v", r.ID, r.InWindow)
					if w != nil {
						r.Out = w.present(op, ct)
					} else if !r.InWindow {
						r.Out = "skew" // gated as VerifyAPREQ does before consulting the cache
					} else {
						sec := ct.Truncate(time.Second)
						crealm, cnames := clientOf(op.Client)
						if op.ZoneMin != 0 {
							// what the decoder makes of a time written with a zone offset
							sec = sec.In(time.FixedZone("", op.ZoneMin*60))
						}
						a := types.Authenticator{AVNO: 5, CRealm: crealm, CName: types.PrincipalName{NameType: 1, NameString: cnames},
							CTime: sec, Cusec: int(ct.Sub(sec) / time.Microsecond)}
						if service.GetReplayCache(useSkew).IsReplay(pnameT("HTTP/"+op.Svc, op.SvcNT), a) {
							r.Out = "replay"
						} else {
							r.Out = "fresh"
						}
					}
					r.Return = simrt.NowNs()
					dlt = time.Now().UTC().Sub(ct)
					if dlt < 0 {
						dlt = -dlt
					}
					r.InWindowRet = dlt <= useSkew
					simrt.Logf("return present %s -> %s", r.ID, r.Out)
					recs[ti] = append(recs[ti], r)
				case "clear":
					// an application that cleans the shared cache itself has to keep entries for the
					// longest skew it verifies with
					d := skew + time.Duration(op.ClearS)*time.Second
					if altSkew > skew {
						d = altSkew + time.Duration(op.ClearS)*time.Second
					}
					if alt2Skew > skew && alt2Skew > altSkew {
						d = alt2Skew + time.Duration(op.ClearS)*time.Second
					}
					simrt.Logf("invoke clear %v", d)
					inv := simrt.NowNs()
					rc.ClearOldEntries(d)
					recs[ti] = append(recs[ti], rec{Task: tt.ID, Idx: oi, Out: "clear", Invoke: inv, Return: simrt.NowNs()})
				case "sleep":
				default:
				}
			}
		}))
	}
	if late := simrt.WaitTimeout(1000*time.Hour, ts...); len(late) > 0 {
		engine.Violate(res, "no-progress", map[string]interface{}{"tasks": len(late)})
		return
	}
	for _, t := range ts {
		if t.Panic != nil {
			res.Verdict = "harness-error"
			res.Harness = fmt.Sprintf("task %d panicked: %v\n%s", t.ID, t.Panic, t.Stack)
			return
		}
	}
	var all []rec
	for _, rs := range recs {
		all = append(all, rs...)
	}
	sort.Slice(all, func(i, j int) bool {
		if all[i].Invoke != all[j].Invoke {
			return all[i].Invoke < all[j].Invoke
		}
		return all[i].Task < all[j].Task
	})
	judge(&tp, base, skew, all, res)
}

func judge(tp *Tape, base time.Time, skew time.Duration, all []rec, res *core.Result) {
	res.Evals = 0
	byID := map[string][]rec{}
	var outcome []string
	for _, r := range all {
		if r.Out == "clear" {
			continue
		}
		outcome = append(outcome, r.Out[:1])
		if r.Out == "error" && r.InWindow {
			// path=verify: a valid, in-window, minted request was refused for another reason than
			// replay or skew (or the verifier panicked)
			engine.Violate(res, "verify-path-refused-valid-request", r)
		}
		if r.Out == "skew" || r.Out == "error" {
			if r.Out == "skew" && r.InWindow {
				// path=verify only: the service refused an in-window authenticator as skewed
				engine.Violate(res, "false-skew-reject", r)
			}
			continue
		}
		if !r.InWindow {
			// accepted or called a replay although outside the window: C01's business for the
			// verify path; the cache is not judged on it.
			res.Stats["out_of_window_reached_cache"]++
			continue
		}
		res.Evals++
		if !r.InWindowRet {
			res.Probes["window-closes-during-presentation"]++
		}
		byID[r.ID] = append(byID[r.ID], r)
	}
	if res.Evals == 0 {
		res.Evals = 1
	}
	skewNs := int64(skew)
	// cache creation instant on the run clock: after the initial hour
	creation := int64(time.Hour)
	// oracle 1: at most one acceptance per identity; oracle 2: the first presentation of a
	// (client, time) pair is never a replay; probes
	firstByKey := map[string]rec{}
	for _, r := range all {
		if r.Out != "fresh" && r.Out != "replay" || !r.InWindow {
			continue
		}
		if f, ok := firstByKey[r.Key]; !ok || r.Invoke < f.Invoke {
			firstByKey[r.Key] = r
		}
	}
	for _, r := range all {
		if r.Out != "clear" {
			continue
		}
		for _, o := range all {
			if (o.Out == "fresh" || o.Out == "replay") && o.Invoke < r.Return && r.Invoke < o.Return {
				res.Probes["presentation-overlaps-cleanup"]++
			}
		}
	}
	for id, rs := range byID {
		for i := 1; i < len(rs); i++ {
			if rs[i].SvcNT != rs[0].SvcNT {
				res.Probes["replay-under-other-name-type"]++
			}
			if rs[i].Alt != rs[0].Alt || rs[i].Alt2 != rs[0].Alt2 {
				res.Probes["replay-through-other-settings"]++
			}
			if rs[i].Alt2 && !rs[0].Alt2 {
				res.Probes["replay-through-third-settings-with-longest-skew"]++
			}
			if rs[i].ZoneMin != rs[0].ZoneMin {
				res.Probes["replay-under-other-zone-encoding"]++
			}
			if rs[i].Relabel != rs[0].Relabel {
				res.Probes["replay-with-rewritten-sname"]++
			}
			if rs[i].Kvno != rs[0].Kvno {
				res.Probes["replay-with-ticket-under-other-service-key"]++
			}
			if rs[i].SkewNs > rs[0].SkewNs && rs[i].Invoke-(int64(time.Hour)+rs[i].CtUs*1000) > rs[0].SkewNs {
				res.Probes["longer-skew-first-used-after-shorter-skew-elapsed"]++
			}
		}
		var acc []rec
		for _, r := range rs {
			if r.Out == "fresh" {
				acc = append(acc, r)
			}
		}
		if len(rs) >= 2 {
			res.Nontrivial = true
		}
		for i := 0; i < len(rs); i++ {
			for j := i + 1; j < len(rs); j++ {
				a, b := rs[i], rs[j]
				if a.Invoke < b.Return && b.Invoke < a.Return {
					res.Probes["same-identity-overlap"]++
				} else {
					res.Probes["sequential-replay"]++
					if b.Invoke-a.Return > skewNs {
						res.Probes["late-window"]++
					}
					if (b.Invoke-creation)/skewNs > (a.Return-creation)/skewNs {
						res.Probes["cleaner-between"]++
					}
					for _, o := range all {
						if o.Out == "clear" && o.Invoke > a.Return && o.Invoke < b.Invoke {
							res.Probes["cleaner-between"]++
						}
						if o.Key == a.Key && o.ID != a.ID && o.InWindow && (o.Out == "fresh" || o.Out == "replay") && o.Invoke > a.Return && o.Return < b.Invoke {
							res.Probes["cross-service"]++
						}
					}
				}
			}
		}
		if len(acc) > 1 {
			sig := classifyDouble(acc, all, skewNs, creation)
			engine.Violate(res, sig, map[string]interface{}{"identity": id, "accepted": acc})
		}
	}
	for _, r := range all {
		if r.Out == "replay" && r.InWindow && !unjudgedReplay(tp, r, all, skewNs) {
			// someone else must have presented the same (client, time) and been invoked before r returned
			ok := false
			for _, o := range all {
				if o.Key == r.Key && !(o.Task == r.Task && o.Idx == r.Idx) && o.Invoke < r.Return && (o.Out == "fresh" || o.Out == "replay") {
					ok = true
				}
			}
			if !ok {
				sig := "false-replay"
				for _, o := range all {
					if o.Key != r.Key && o.CtUs == r.CtUs && o.Invoke < r.Return && (o.Out == "fresh" || o.Out == "replay") {
						or, on := clientOf(strings.SplitN(o.Key, "|", 2)[0])
						rr, rn := clientOf(strings.SplitN(r.Key, "|", 2)[0])
						if strings.Join(on, "/") == strings.Join(rn, "/") && (or != rr || len(on) != len(rn)) {
							sig = "false-replay/other-realm-or-other-components-same-joined-name"
						}
					}
				}
				engine.Violate(res, sig, r)
			}
		}
	}
	// oracle 3: linearizability against the set model
	var ops []porcupine.Operation
	for _, r := range all {
		if (r.Out == "fresh" || r.Out == "replay") && r.InWindow {
			if r.Out == "replay" && unjudgedReplay(tp, r, all, skewNs) {
				continue
			}
			ret := r.Return
			if ret <= r.Invoke {
				ret = r.Invoke + 1
			}
			ops = append(ops, porcupine.Operation{ClientId: r.Task, Input: r, Call: r.Invoke, Output: r.Out == "replay", Return: ret})
		}
	}
	if len(ops) > 0 && len(ops) <= 32 {
		switch porcupine.CheckOperations(setModel, ops) {
		case true:
			res.Stats["linearizable"]++
		default:
			if len(res.Violations) == 0 {
				engine.Violate(res, "non-linearizable", map[string]interface{}{"history": all})
			} else {
				res.Stats["non_linearizable_with_other_violation"]++
			}
		}
	}
	for _, t := range tp.Tasks {
		if t.Sched.Mode != "min" && t.Sched.Mode != "" {
			res.Faults["seeded-delays-at-lock-boundaries("+t.Sched.Mode+")"]++
		}
		for _, o := range t.Ops {
			switch {
			case o.Op == "clear":
				res.Faults["explicit-clean-up"]++
			case o.ThinkNs > skewNs:
				res.Faults["clock-advanced-beyond-a-skew-period"]++
			}
		}
	}
	for _, rs := range byID {
		if len(rs) > 1 {
			res.Faults["replayed-authenticator"] += len(rs) - 1
		}
	}
	res.Class = fmt.Sprintf("%s|%s|%d|%s|%s", tp.Shape, tp.Path, tp.SkewS, "{I}", strings.Join(outcome, ""))
	res.Stats["presentations"] = int64(len(outcome))
}

// unjudgedReplay: a refusal as "replay" that says nothing about the cache's memory.  (a) The skew
// window of the client time closed while the call was in progress: the request passed the skew test
// at its start and would no longer pass it when answered - refusing it either way is right.  (b) It
// came through the settings with the longer skew, carries a client time older than the shorter skew,
// and arrived within one longer-skew period of those settings' first use: until then the process kept
// entries for the shorter skew only, so a cache that cannot know whether it has seen the
// authenticator may refuse it.  Acceptances are always judged.
func unjudgedReplay(tp *Tape, r rec, all []rec, skewNs int64) bool {
	if !r.InWindowRet {
		return true
	}
	if r.SkewNs <= skewNs {
		return false
	}
	// every first use of settings with a longer skew than the process's first settings may raise the
	// longest skew known to the cache; what is older than that instant minus the skew that applied
	// before (at least the first settings' skew) may have been forgotten already
	ctNs := int64(time.Hour) + r.CtUs*1000 // client time on the run clock: the world starts one hour into the bubble
	firstUse := map[int64]rec{}
	for _, o := range all {
		if o.SkewNs > skewNs && (o.Out == "fresh" || o.Out == "replay") {
			if f, ok := firstUse[o.SkewNs]; !ok || o.Invoke < f.Invoke {
				firstUse[o.SkewNs] = o
			}
		}
	}
	for _, f := range firstUse {
		if f.Invoke <= r.Return && f.Return-ctNs > skewNs && r.Invoke <= f.Return+f.SkewNs {
			return true
		}
	}
	return false
}

// classifyDouble names the history shape of a double acceptance (DESIGN 5.4).
func classifyDouble(acc, all []rec, skewNs, creation int64) string {
	a, b := acc[0], acc[1]
	if b.Invoke < a.Invoke {
		a, b = b, a
	}
	overlap := a.Invoke < b.Return && b.Invoke < a.Return
	// causes that lie in how the authenticator was presented rather than in the history around it
	switch {
	case a.ZoneMin != 0 || b.ZoneMin != 0:
		return "double-accept/client-time-encoded-with-zone-offset"
	case a.Relabel != b.Relabel:
		return "double-accept/rewritten-ticket-sname"
	case a.Kvno != b.Kvno:
		return "double-accept/ticket-sealed-under-another-key-of-the-service"
	case b.SkewNs > a.SkewNs && b.Invoke-(int64(time.Hour)+b.CtUs*1000) > a.SkewNs:
		return "double-accept/longer-skew-of-second-settings-first-used-late"
	case !b.InWindowRet && !overlap:
		return "double-accept/window-closes-during-second-presentation"
	}
	live := func(o rec) bool { return (o.Out == "fresh" || o.Out == "replay") && o.InWindow }
	for _, o := range all {
		if o.Key == a.Key && o.ID != a.ID && live(o) && o.Return > a.Invoke && o.Invoke < b.Return {
			return "double-accept/other-service-between"
		}
	}
	if !overlap {
		cleaned := (b.Invoke-creation)/skewNs > (a.Return-creation)/skewNs
		for _, o := range all {
			if o.Out == "clear" && o.Invoke > a.Return && o.Invoke < b.Invoke {
				cleaned = true
			}
		}
		if cleaned {
			return "double-accept/after-cleanup-in-window"
		}
	}
	client := strings.SplitN(a.Key, "|", 2)[0]
	for _, o := range all {
		if o.Key != a.Key && strings.SplitN(o.Key, "|", 2)[0] == client && live(o) && o.Invoke < a.Return && a.Invoke < o.Return {
			return "double-accept/first-insert-lost-to-concurrent-insert-of-same-client"
		}
	}
	if overlap {
		return "double-accept/overlap"
	}
	return "double-accept/other"
}

var setModel = porcupine.Model{
	Partition: func(history []porcupine.Operation) [][]porcupine.Operation {
		m := map[string][]porcupine.Operation{}
		var keys []string
		for _, o := range history {
			k := o.Input.(rec).Key
			if _, ok := m[k]; !ok {
				keys = append(keys, k)
			}
			m[k] = append(m[k], o)
		}
		sort.Strings(keys)
		var out [][]porcupine.Operation
		for _, k := range keys {
			out = append(out, m[k])
		}
		return out
	},
	Init: func() interface{} { return "" },
	Step: func(state, input, output interface{}) (bool, interface{}) {
		st := state.(string)
		in := input.(rec)
		replay := output.(bool)
		have := strings.Contains(st, "<"+in.ID+">")
		if have {
			return replay, st
		}
		if !replay {
			return true, st + "<" + in.ID + ">"
		}
		// reported as a replay although this identity was not accepted: the statement only
		// forbids that for authenticators differing in client name or timestamp; an accepted
		// one with the same client and time for another service leaves it open.
		if st != "" {
			return true, st
		}
		return false, st
	},
	Equal: func(a, b interface{}) bool { return a.(string) == b.(string) },
}
