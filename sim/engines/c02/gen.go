// Package c02 is the engine for property C02: an authenticator is accepted at most once while it
// remains acceptable.  World: the real process-wide replay cache of gokrb5 (service/cache.go,
// compiled through the sync overlay) with its own clean-up goroutine, 1-3 presenter tasks under
// the seeded scheduler, the fake clock.
package c02

import (
	"encoding/json"
	"fmt"

	"verifsim/core"
	"verifsim/engine"
	"verifsim/simrt"
)

type Op struct {
	Op      string `json:"op"` // present | clear | sleep
	Client  string `json:"client,omitempty"`
	CtUs    int64  `json:"ct_us,omitempty"` // client time = base + CtUs microseconds
	Svc     string `json:"svc,omitempty"`
	ThinkNs int64  `json:"think_ns,omitempty"` // simulated time before the op
	ClearS  int64  `json:"clear_s,omitempty"`  // clear: duration = skew + ClearS seconds
	SvcNT   int32  `json:"svc_nt,omitempty"`   // name-type of the service name as presented (0 = 1; not significant, RFC 4120 6.2)
	Alt     bool   `json:"alt,omitempty"`      // presented through the process's second settings object (other clock skew)
	Alt2    bool   `json:"alt2,omitempty"`     // presented through the process's third settings object (a clock skew longer than both others)
	ZoneMin int    `json:"zone_min,omitempty"` // the client time is encoded with this zone offset (minutes) instead of Z: same instant
	Kvno    int    `json:"kvno,omitempty"`     // path=verify: key version of the service key the ticket is sealed under (0 = 2; 1 = the older key, as a ticket issued before the key change)
	Relabel string `json:"relabel,omitempty"`  // path=verify: the clear-text sname of the ticket is rewritten to HTTP/<this>; applied when the key found is the same (settings overriding the keytab principal, or the alias a<n> of the account of s<n>)
}

type TaskT struct {
	ID    int         `json:"id"`
	Sched simrt.Sched `json:"sched"`
	Ops   []Op        `json:"ops"`
}

type Tape struct {
	Engine  string  `json:"engine"`
	RunSeed uint64  `json:"run_seed"`
	SkewS   int64   `json:"skew_s"`
	Path    string  `json:"path"` // isreplay | verify
	Etype   int     `json:"etype,omitempty"`
	Shape   string  `json:"shape"`
	AltMs   int64   `json:"alt_skew_ms,omitempty"`          // clock skew of a second settings object in the same process (0 = none)
	Alt2Ms  int64   `json:"alt2_skew_ms,omitempty"`         // clock skew of a third settings object, longer than both others (0 = none)
	AltKt   string  `json:"alt_keytab_principal,omitempty"` // path=verify: the second settings object overrides the keytab principal with HTTP/<this service>
	Tasks   []TaskT `json:"tasks"`
}

// RelabelApplies: the rewritten sname leaves the key the service finds unchanged.
func RelabelApplies(tp *Tape, op Op, throughAlt bool) bool {
	if op.Relabel == "" || tp.Path != "verify" || len(op.Svc) < 2 {
		return false
	}
	if throughAlt && tp.AltKt == op.Svc {
		return true
	}
	return !(throughAlt && tp.AltKt != "") && op.Relabel == "a"+op.Svc[1:]
}

// verifyReady enables the full VerifyAPREQ path.
const verifyReady = true

var (
	// "a%admin" is the one-component name "a/admin" (another principal than the two-component a/admin);
	// "a@OTHER.TEST" is the client a of another realm
	clients  = []string{"a", "b", "a/admin", "a%admin", "a@OTHER.TEST"}
	services = []string{"s1", "s2"}
)

func Meta() core.Meta {
	return core.Meta{
		Engine: "c02", Property: "C02", Level: "exploration",
		Rule:        "case = one seeded run: 1-3 presenter tasks (1-8 presentations each over clients{a,b,a/admin,a/admin as one component,a@other realm} x client times{t0,+1us,+1s,late,early; encoded with Z or a zone offset} x services{s1,s2} x service name-type{1,2,3} x rewritten clear-text ticket sname x 1-2 settings objects with different clock skews sharing the process's cache, the second one known to the cache from its first verification on) plus the library's clean-up goroutine, interleaved by the seeded fake-time scheduler at every lock boundary of service/cache.go; distinct = distinct (shape, path, skew, interleaving hash of the ordered (task, lock site) sequence, outcome vector); non-trivial = at least two presentations of one identity inside the skew window, or a context switch inside a cache operation",
		SeededQuick: 20000, SeededThorough: 600000,
		WorkloadProbes: []string{"same-identity-overlap", "late-window", "cleaner-between", "cross-service", "sequential-replay", "presentation-overlaps-cleanup", "replay-under-other-name-type", "replay-through-other-settings", "replay-under-other-zone-encoding", "replay-with-rewritten-sname", "replay-with-ticket-under-other-service-key", "longer-skew-first-used-after-shorter-skew-elapsed", "window-closes-during-presentation", "replay-through-third-settings-with-longest-skew"},
		Components: map[string]string{
			"service.Cache (IsReplay, AddEntry, getClientEntry, ClearOldEntries) + GetReplayCache clean-up goroutine": "real",
			"service.VerifyAPREQ, messages.APReq.Verify, keytab, crypto (path=verify)":                                "real",
			"sync in service/cache.go": "shim (TryLock loop over the real mutex, seeded yields)",
			"time":                     "real package on the synctest fake clock",
			"KDC, client (ticket and authenticator minting)": "stub: refkrb reference implementation",
		},
		Assumptions: []string{
			"the scheduler interleaves at lock boundaries of service/cache.go only; code between two lock operations runs atomically",
			"presentations outside the clock-skew window are gated out before the cache (as VerifyAPREQ does) and are not judged",
			"one OS process = one service process; restart is out of the property's scope",
		},
		ChildTimeoutS: 60,
	}
}

// Gen draws a tape from the case id.
func Gen(caseID, tier string) (json.RawMessage, error) {
	kind, n, err := engine.ParseCase(caseID)
	if err != nil {
		return nil, err
	}
	if kind != "seed" {
		return nil, fmt.Errorf("c02 has no sweep")
	}
	r := core.NewRng(n).Derive("c02")
	tp := Tape{Engine: "c02", RunSeed: n, Path: "isreplay"}
	tp.SkewS = int64(r.PickInt(1, 300, 300))
	if verifyReady && r.Chance(2, 5) {
		tp.Path = "verify"
		tp.Etype = r.PickInt(17, 18, 18, 19, 20, 23, 16)
	}
	skewUs := tp.SkewS * 1e6
	ctChoices := []int64{0, 0, 0, 1, 1e6, skewUs - 200_000, -skewUs + 200_000}
	thinkChoices := func() int64 {
		switch r.Intn(9) {
		case 0, 1, 2:
			return int64(r.Range(0, 400))
		case 3:
			return int64(r.Range(1_000, 2_000_000))
		case 4:
			return tp.SkewS * 400_000_000 // 0.4 skew
		case 5:
			return tp.SkewS * 700_000_000
		case 6:
			return tp.SkewS*1_000_000_000 + int64(r.Range(1, 1000))*1_000_000
		case 7:
			return tp.SkewS * 1_300_000_000
		default:
			return tp.SkewS * 2_100_000_000
		}
	}
	modes := []string{"min", "fast", "fast", "mixed", "mixed", "slow", "stall"}
	switch r.Intn(11) {
	case 10: // window-edge: a replay presented just before the end of the skew window while a clean-up runs
		tp.Shape = "window-edge"
		cl, sv := r.Pick(clients...), r.Pick(services...)
		t1 := TaskT{ID: 1, Sched: simrt.Sched{Seed: r.U64(), Mode: "min"}}
		t3 := TaskT{ID: 3, Sched: simrt.Sched{Seed: r.U64(), Mode: r.Pick("stall", "stall", "slow", "mixed")}}
		if r.Chance(1, 2) {
			// the library's own clean-up goroutine wakes one skew period after the cache was made:
			// exactly when an authenticator stamped at that instant stops being acceptable
			t1.Ops = append(t1.Ops, Op{Op: "present", Client: cl, CtUs: 0, Svc: sv, ThinkNs: int64(r.Range(0, 900_000_000))})
			t3.Ops = append(t3.Ops, Op{Op: "present", Client: cl, CtUs: 0, Svc: sv, ThinkNs: tp.SkewS*1_000_000_000 - int64(r.Range(0, 3_000))})
			tp.Tasks = append(tp.Tasks, t1, t3)
		} else {
			oldCt := -skewUs + 200_000
			t1.Ops = append(t1.Ops, Op{Op: "present", Client: cl, CtUs: oldCt, Svc: sv, ThinkNs: int64(r.Range(0, 300))})
			t3.Ops = append(t3.Ops, Op{Op: "present", Client: cl, CtUs: oldCt, Svc: sv, ThinkNs: 200_000_000 - int64(r.Range(0, 3_000))})
			t2 := TaskT{ID: 2, Sched: simrt.Sched{Seed: r.U64(), Mode: "min"}}
			t2.Ops = append(t2.Ops, Op{Op: "clear", ThinkNs: 200_000_000 + int64(r.Range(1, 4_000_000))})
			tp.Tasks = append(tp.Tasks, t1, t2, t3)
		}
	case 0, 1, 2, 3: // overlap: same identity presented by 2-3 tasks at (almost) the same time
		tp.Shape = "overlap"
		nt := r.Range(2, 3)
		cl, ct, sv := r.Pick(clients...), ctChoices[r.Intn(len(ctChoices))], r.Pick(services...)
		pre := int64(r.Range(0, 3)) * tp.SkewS * 300_000_000
		for i := 1; i <= nt; i++ {
			t := TaskT{ID: i, Sched: simrt.Sched{Seed: r.U64(), Mode: modes[r.Intn(len(modes))]}}
			t.Ops = append(t.Ops, Op{Op: "present", Client: cl, CtUs: ct, Svc: sv, ThinkNs: pre + int64(r.Range(0, 600))})
			for k := r.Intn(3); k > 0; k-- {
				o := Op{Op: "present", Client: cl, CtUs: ct, Svc: sv, ThinkNs: int64(r.Range(0, 300))}
				if r.Chance(1, 3) {
					o.Client, o.CtUs, o.Svc = r.Pick(clients...), ctChoices[r.Intn(len(ctChoices))], r.Pick(services...)
				}
				t.Ops = append(t.Ops, o)
			}
			tp.Tasks = append(tp.Tasks, t)
		}
	case 4, 5, 6: // history: one task, sequential presentations across skew periods and clean-ups
		tp.Shape = "history"
		t := TaskT{ID: 1, Sched: simrt.Sched{Seed: r.U64(), Mode: "min"}}
		nops := r.Range(2, 8)
		cl, ct := r.Pick(clients...), ctChoices[r.Intn(len(ctChoices))]
		for k := 0; k < nops; k++ {
			o := Op{Op: "present", Client: cl, CtUs: ct, Svc: r.Pick(services...), ThinkNs: thinkChoices()}
			if r.Chance(1, 4) {
				o.Client = r.Pick(clients...)
			}
			if r.Chance(1, 4) {
				o.CtUs = ctChoices[r.Intn(len(ctChoices))]
			}
			if r.Chance(1, 10) {
				o = Op{Op: "clear", ClearS: int64(r.Range(0, 5)), ThinkNs: thinkChoices()}
			}
			t.Ops = append(t.Ops, o)
		}
		tp.Tasks = append(tp.Tasks, t)
	case 8: // flood: many distinct authenticators of one client between an authenticator and its replay
		if r.Chance(1, 3) {
			tp.Shape = "flood"
			cl, sv := r.Pick(clients...), r.Pick(services...)
			t := TaskT{ID: 1, Sched: simrt.Sched{Seed: r.U64(), Mode: "min"}}
			t.Ops = append(t.Ops, Op{Op: "present", Client: cl, CtUs: 0, Svc: sv, ThinkNs: int64(r.Range(0, 300))})
			n := r.Range(60, 110)
			if r.Chance(1, 2) {
				n = r.Range(130, 300)
			}
			for k := 1; k <= n; k++ {
				t.Ops = append(t.Ops, Op{Op: "present", Client: cl, CtUs: int64(k) * 7, Svc: sv, ThinkNs: int64(r.Range(0, 300))})
			}
			t.Ops = append(t.Ops, Op{Op: "present", Client: cl, CtUs: 0, Svc: sv, ThinkNs: int64(r.Range(0, 300))})
			tp.Tasks = append(tp.Tasks, t)
			break
		}
		fallthrough
	case 7: // clean-up racing with the return of a client whose earlier entries have all aged out
		tp.Shape = "cleanup-race"
		cl, sv := r.Pick(clients...), r.Pick(services...)
		oldCt := -skewUs + 200_000
		// the old authenticator stops being acceptable 0.2 s after the start; the client comes back
		// a little later (explicit clean-up by another task) or exactly when the library's own
		// clean-up goroutine wakes (every skew period after the creation of the cache)
		back := int64(300_000_000) + int64(r.Range(0, 200))*1_000_000
		if r.Chance(1, 2) {
			back = tp.SkewS*1_000_000_000*int64(r.Range(1, 2)) - 2_000
		}
		jit := func() int64 { return int64(r.Range(0, 6_000)) }
		t1 := TaskT{ID: 1, Sched: simrt.Sched{Seed: r.U64(), Mode: modes[r.Intn(len(modes))]}}
		t1.Ops = append(t1.Ops, Op{Op: "present", Client: cl, CtUs: oldCt, Svc: sv, ThinkNs: int64(r.Range(0, 300))})
		t1.Ops = append(t1.Ops, Op{Op: "present", Client: cl, CtUs: 0, Svc: sv, ThinkNs: back + jit()})
		t1.Ops = append(t1.Ops, Op{Op: "present", Client: cl, CtUs: 0, Svc: sv, ThinkNs: int64(r.Range(0, 5_000))})
		if r.Chance(1, 2) {
			t1.Ops = append(t1.Ops, Op{Op: "present", Client: cl, CtUs: 0, Svc: sv, ThinkNs: thinkChoices()})
		}
		t2 := TaskT{ID: 2, Sched: simrt.Sched{Seed: r.U64(), Mode: modes[r.Intn(len(modes))]}}
		t2.Ops = append(t2.Ops, Op{Op: "clear", ThinkNs: back + jit()})
		if r.Chance(1, 2) {
			t2.Ops = append(t2.Ops, Op{Op: "present", Client: cl, CtUs: 0, Svc: sv, ThinkNs: int64(r.Range(0, 5_000))})
		}
		tp.Tasks = append(tp.Tasks, t1, t2)
		if r.Chance(1, 3) {
			t3 := TaskT{ID: 3, Sched: simrt.Sched{Seed: r.U64(), Mode: modes[r.Intn(len(modes))]}}
			t3.Ops = append(t3.Ops, Op{Op: "clear", ThinkNs: back + jit()})
			tp.Tasks = append(tp.Tasks, t3)
		}
	default: // mixed
		tp.Shape = "mixed"
		nt := r.Range(2, 3)
		pool := 1 + r.Intn(3)
		type idt struct {
			c  string
			ct int64
			s  string
		}
		var ids []idt
		for i := 0; i < pool; i++ {
			ids = append(ids, idt{r.Pick(clients...), ctChoices[r.Intn(len(ctChoices))], r.Pick(services...)})
		}
		for i := 1; i <= nt; i++ {
			t := TaskT{ID: i, Sched: simrt.Sched{Seed: r.U64(), Mode: modes[r.Intn(len(modes))]}}
			for k := r.Range(1, 8); k > 0; k-- {
				x := ids[r.Intn(len(ids))]
				o := Op{Op: "present", Client: x.c, CtUs: x.ct, Svc: x.s, ThinkNs: thinkChoices()}
				if r.Chance(1, 2) {
					o.ThinkNs = int64(r.Range(0, 500))
				}
				if r.Chance(1, 5) {
					o.Svc = r.Pick(services...)
				}
				if r.Chance(1, 12) {
					o = Op{Op: "clear", ClearS: int64(r.Range(0, 5)), ThinkNs: int64(r.Range(0, 500))}
				}
				t.Ops = append(t.Ops, o)
			}
			tp.Tasks = append(tp.Tasks, t)
		}
	}
	// not significant for identity: the name-type under which the service name is presented, and
	// which of the process's settings objects (sharing the one replay cache) verifies
	if r.Chance(1, 3) && tp.Shape != "window-edge" {
		tp.AltMs = tp.SkewS * int64(r.PickInt(500, 500, 2000, 1000, 3000))
		if tp.Path == "verify" && r.Chance(1, 2) {
			tp.AltKt = r.Pick(services...)
		}
	}
	if tp.AltMs != 0 && r.Chance(1, 2) {
		// a third settings object whose skew is longer than both others
		m := tp.AltMs
		if tp.SkewS*1000 > m {
			m = tp.SkewS * 1000
		}
		tp.Alt2Ms = m * int64(r.PickInt(2, 3, 20))
	}
	if r.Chance(1, 25) && tp.Shape != "window-edge" {
		// skew ladder: an authenticator accepted through the settings with the shortest skew ages out
		// of them (the cache may forget it), then settings with successively longer skews verify for
		// the first time in quick succession and the last of them is handed the old authenticator
		tp.Shape = "skew-ladder"
		tp.AltKt = ""
		tp.AltMs = tp.SkewS * int64(r.PickInt(3000, 5000))
		tp.Alt2Ms = tp.AltMs * int64(r.PickInt(2, 10, 20))
		cl, sv := r.Pick(clients...), r.Pick(services...)
		skewNs := tp.SkewS * 1_000_000_000
		ctUs := -(skewNs / 1000) * int64(r.PickInt(0, 30, 60)) / 100 // the client's clock may be behind: the entry ages out sooner
		wait := skewNs + skewNs*int64(r.Range(5, 145))/100          // 1.05 - 2.45 skews after the first presentation (the library's clean-up runs once per skew)
		gap := skewNs * int64(r.Range(0, 25)) / 100                  // well below the difference of the two shorter skews
		if r.Chance(1, 3) {
			gap = int64(r.Range(0, 2_000_000))
		}
		t1 := TaskT{ID: 1, Sched: simrt.Sched{Seed: r.U64(), Mode: r.Pick("min", "fast", "mixed")}}
		t1.Ops = append(t1.Ops, Op{Op: "present", Client: cl, CtUs: ctUs, Svc: sv, ThinkNs: int64(r.Range(0, 1000))})
		other := clients[0]
		if other == cl {
			other = clients[1]
		}
		t1.Ops = append(t1.Ops, Op{Op: "present", Client: other, CtUs: wait / 1000, Svc: sv, ThinkNs: wait, Alt: true})
		t1.Ops = append(t1.Ops, Op{Op: "present", Client: cl, CtUs: ctUs, Svc: sv, ThinkNs: gap, Alt2: true})
		if r.Chance(1, 2) {
			t1.Ops = append(t1.Ops, Op{Op: "present", Client: cl, CtUs: ctUs, Svc: sv, ThinkNs: int64(r.Range(0, 1_000_000)), Alt: r.Chance(1, 2)})
		}
		tp.Tasks = []TaskT{t1}
		return core.MustJSON(tp), nil
	}
	for ti := range tp.Tasks {
		for oi := range tp.Tasks[ti].Ops {
			o := &tp.Tasks[ti].Ops[oi]
			if o.Op != "present" {
				continue
			}
			if r.Chance(1, 4) {
				o.SvcNT = int32(r.PickInt(2, 3))
			}
			if tp.Alt2Ms != 0 && r.Chance(1, 4) {
				o.Alt2 = true
			} else if tp.AltMs != 0 && r.Chance(1, 2) {
				o.Alt = true
				if tp.AltKt == o.Svc && r.Chance(1, 2) {
					o.Relabel = r.Pick("x1", "x2", "s1", "s2")
				}
			}
			if o.Relabel == "" && tp.Path == "verify" && r.Chance(1, 8) {
				// the ticket names another service principal name of the same account (same key)
				o.Relabel = "a" + o.Svc[1:]
			}
			if tp.Path == "verify" && r.Chance(1, 5) {
				o.Kvno = 1
			}
			if r.Chance(1, 6) {
				o.ZoneMin = r.PickInt(330, -210, 60, 345, -1)
			}
		}
	}
	return core.MustJSON(tp), nil
}
