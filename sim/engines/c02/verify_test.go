package c02

import (
	"errors"
	"time"
)

// verifyWorld presents through the full service.VerifyAPREQ path (tickets from the reference KDC).
type verifyWorld struct{}

func newVerifyWorld(tp *Tape, base time.Time) (*verifyWorld, error) {
	return nil, errors.New("verify path not built yet")
}

func (w *verifyWorld) present(op Op, ct time.Time) string { return "error" }
