package c02

import (
	"fmt"
	"strings"
	"time"

	"github.com/jcmturner/gokrb5/v8/keytab"
	"github.com/jcmturner/gokrb5/v8/messages"
	"github.com/jcmturner/gokrb5/v8/service"

	"verifsim/engine"
	"verifsim/refkrb/rcrypto"
	"verifsim/refkrb/rk"
	"verifsim/simrt"
	"verifsim/world"
)

// verifyWorld presents through the full service.VerifyAPREQ path: tickets and authenticators are
// minted by the reference implementation (the authenticator carries exactly the client time the
// tape asks for), so that the service's skew test and the replay cache interact as in production.
type verifyWorld struct {
	tp       *Tape
	ktm      *world.KeytabModel
	settings *service.Settings
	alt      *service.Settings // a second settings object of the same process with another clock skew
	alt2     *service.Settings // a third one, whose skew is the longest
	base     time.Time
}

func newVerifyWorld(tp *Tape, base time.Time) (*verifyWorld, error) {
	if !rcrypto.Supported(tp.Etype) {
		return nil, fmt.Errorf("etype %d", tp.Etype)
	}
	w := &verifyWorld{tp: tp, base: base}
	// two key versions per account, as after a key change (outstanding and renewed tickets are sealed
	// under different keys of the one service)
	w.ktm = world.BuildKeytab(tp.RunSeed, []string{"HTTP/s1", "HTTP/s2"}, []string{"SIM.TEST"}, []int{1, 2}, []int{tp.Etype})
	// service aliases: HTTP/a1 and HTTP/a2 are further names of the accounts of s1 and s2 and share
	// their keys (as service principal names of one account do)
	for _, e := range append([]world.KtEntry{}, w.ktm.Entries...) {
		a := e
		a.Principal = "HTTP/a" + strings.TrimPrefix(e.Principal, "HTTP/s")
		w.ktm.Entries = append(w.ktm.Entries, a)
	}
	kt := keytab.New()
	if err := kt.Unmarshal(w.ktm.Bytes()); err != nil {
		return nil, err
	}
	w.settings = service.NewSettings(kt, service.MaxClockSkew(time.Duration(tp.SkewS)*time.Second), service.DecodePAC(false))
	if tp.AltMs != 0 {
		opts := []func(*service.Settings){service.MaxClockSkew(time.Duration(tp.AltMs) * time.Millisecond), service.DecodePAC(false)}
		if tp.AltKt != "" {
			// the override names the alias of that service's account
			opts = append(opts, service.KeytabPrincipal("HTTP/a"+strings.TrimPrefix(tp.AltKt, "s")))
		}
		w.alt = service.NewSettings(kt, opts...)
	}
	if tp.Alt2Ms != 0 {
		w.alt2 = service.NewSettings(kt, service.MaxClockSkew(time.Duration(tp.Alt2Ms)*time.Millisecond), service.DecodePAC(false))
	}
	return w, nil
}

// present mints an AP-REQ of op.Client for HTTP/op.Svc whose authenticator is stamped ct and
// hands it to the real verifier; the answer is fresh | replay | skew | error.
func (w *verifyWorld) present(op Op, ct time.Time) string {
	et := w.tp.Etype
	svc := "HTTP/" + op.Svc
	kvno := int64(2)
	if op.Kvno == 1 {
		kvno = 1
	}
	ent := w.ktm.Select([]string{"HTTP", op.Svc}, "SIM.TEST", kvno, int32(et))
	if ent == nil {
		return "error"
	}
	r := simrt.Rand()
	sess := rk.EncryptionKey{Etype: int32(et)}
	sess.Value, _ = rcrypto.RandomToKey(et, r.Bytes(rcrypto.SeedSize(et)))
	start := w.base.Add(-time.Hour).Truncate(time.Second)
	crealm, cnames := clientOf(op.Client)
	cname := rk.PrincipalName{Type: 1, Names: cnames}
	etp := rk.EncTicketPart{Flags: rk.Bit(rk.FlagInitial), Key: sess, CRealm: crealm, CName: cname, TrType: 1,
		AuthTime: start, StartTime: &start, EndTime: w.base.Add(400 * time.Hour).Truncate(time.Second)}
	tenc, err := rk.Seal(ent.Key, rk.KUTicket, etp.EncBytes(), r.Bytes(rcrypto.ConfounderSize(et)), kvno, true)
	if err != nil {
		return "error"
	}
	sec := ct.Truncate(time.Second)
	au := rk.Authenticator{CRealm: crealm, CName: cname, CTime: sec, Cusec: int(ct.Sub(sec) / time.Microsecond), CTimeZoneMin: op.ZoneMin}
	aenc, err := rk.Seal(sess, rk.KUAPReqAuth, au.EncBytes(), r.Bytes(rcrypto.ConfounderSize(et)), 0, false)
	if err != nil {
		return "error"
	}
	ap := rk.APReq{Ticket: rk.Ticket{Realm: "SIM.TEST", SName: rk.ParseName(svc), Enc: tenc}, Auth: aenc}
	if op.SvcNT != 0 {
		ap.Ticket.SName.Type = op.SvcNT // clear-text field of the ticket
	}
	st := w.settings
	throughAlt := false
	if op.Alt2 && w.alt2 != nil {
		st = w.alt2
	} else if op.Alt && w.alt != nil && (w.tp.AltKt == "" || w.tp.AltKt == op.Svc) {
		st, throughAlt = w.alt, true
	}
	if RelabelApplies(w.tp, op, throughAlt) {
		// settings overriding the keytab principal take the key of the configured principal whatever
		// the ticket says in clear; the alias of the account has the account's key
		ap.Ticket.SName = rk.ParseName("HTTP/" + op.Relabel)
	}
	var g messages.APReq
	if err := g.Unmarshal(ap.EncBytes()); err != nil {
		return "error"
	}
	var ok bool
	var verr error
	panicked, _, _ := engine.Guard(func() { ok, _, verr = service.VerifyAPREQ(&g, st) })
	switch {
	case panicked:
		return "error"
	case ok:
		return "fresh"
	}
	if ke, isK := verr.(messages.KRBError); isK {
		switch ke.ErrorCode {
		case 34:
			return "replay"
		case 37:
			return "skew"
		}
	}
	simrt.Logf("unexpected refusal: %v", verr)
	return "error"
}
