package c12

import (
	"encoding/json"
	"fmt"
	"regexp"
	"sort"
	"strconv"
	"strings"
	"testing"
	"time"

	"verifsim/core"
	"verifsim/engine"
	"verifsim/refkdc"
	"verifsim/shim/simnet"
	"verifsim/shim/simsync"
	"verifsim/simrt"
	"verifsim/world"
	"verifsim/world/gk"

	"github.com/jcmturner/gokrb5/v8/client"
)

type eng struct{}

func (eng) Meta() core.Meta                             { return Meta() }
func (eng) Gen(c, tier string) (json.RawMessage, error) { return Gen(c, tier) }
func (eng) Run(tape json.RawMessage, res *core.Result)  { run(tape, res) }
func TestSim(t *testing.T)                              { engine.Main(t, eng{}) }

var krbErrRe = regexp.MustCompile(`KRB Error: \((\d+)\)`)
var kadminRe = regexp.MustCompile(`error response from kadmin: code: (\d+)`)

const (
	oldPassword = "old-Passw0rd-c12"
	newPassword = "new-Passw0rd-c12!"
)

type epClass struct {
	good, dead bool
	code       int64 // >0: answers KRB-ERROR(code)
	toobig     bool
}

func classify(b world.Behaviour, proto string) epClass {
	switch b.Kind {
	case "answer", "":
		return epClass{good: true}
	case "fragment":
		return epClass{good: true}
	case "slow":
		if b.Arg <= int64(time.Second) {
			return epClass{good: true}
		}
		return epClass{dead: true}
	case "krberror":
		return epClass{code: b.Arg}
	case "toobig":
		if proto == "udp" {
			return epClass{toobig: true}
		}
		return epClass{good: true}
	default:
		return epClass{dead: true}
	}
}

type detail struct {
	Limit    string            `json:"limit"`
	Phase    string            `json:"phase"`
	Beh      map[string]string `json:"behaviour"`
	Allowed  []string          `json:"allowed"`
	Observed string            `json:"observed"`
	Err      string            `json:"err,omitempty"`
	Dials    map[string]int    `json:"dials"`
	SimS     float64           `json:"sim_seconds"`
	Order    []string          `json:"dial_order"`
	Server   []string          `json:"kpasswd_server_log,omitempty"`
}

func run(tapeJSON json.RawMessage, res *core.Result) {
	var tp Tape
	if err := json.Unmarshal(tapeJSON, &tp); err != nil {
		res.Verdict, res.Harness = "invalid", err.Error()
		return
	}
	if tp.NKDC < 1 || tp.NKDC > 3 || (tp.Limit != "tcp-only" && tp.Limit != "tcp-first" && tp.Limit != "udp-first") ||
		(tp.Phase != "as" && tp.Phase != "tgs" && tp.Phase != "kpasswd") || tp.Refuse < 0 || tp.Refuse > 7 || (tp.Refuse != 0 && tp.Phase != "kpasswd") {
		res.Verdict, res.Harness = "invalid", "shape"
		return
	}
	kpPhase := tp.Phase == "kpasswd"
	simsync.Passive = true
	gk.Seed(tp.RunSeed)
	kdc := refkdc.New("SIM.TEST", tp.RunSeed, refkdc.Policy{TicketAuthDataPad: tp.BigTkt, ErrorSName: tp.ErrSName})
	if tp.BigTkt > 0 {
		res.Probes["large-reply"]++
	}
	if kpPhase {
		kdc.AddPasswordUser("alice", oldPassword, "", 0)
	} else {
		kdc.AddKeyUser("alice", 3)
	}
	kdc.AddService("HTTP/host.sim.test")
	net := world.NewNet()
	var addrs, kpAddrs []string
	for i := 0; i < tp.NKDC; i++ {
		switch tp.KDCForm {
		case "v6-noport", "v6-bare-noport", "v6-port":
			addrs = append(addrs, fmt.Sprintf("[fd00::%d]:88", i+1))
		default:
			addrs = append(addrs, fmt.Sprintf("10.0.0.%d:88", i+1))
		}
		kpAddrs = append(kpAddrs, fmt.Sprintf("10.0.1.%d:464", i+1))
	}
	// the change-password servers of the realm (reference implementation of RFC 3244), one per KDC
	kp := refkdc.NewKPasswd(kdc)
	kp.Result = uint16(tp.Refuse)
	if tp.Refuse != 0 {
		kp.ResultText = "refused by policy"
	}
	for _, a := range kpAddrs {
		net.Resp[a] = func(proto, addr string, req []byte) []byte { return kp.Handle(req) }
	}
	net.ErrReply = func(addr string, code int32, req []byte) []byte { return kp.ErrorReply(code, 2, "") }
	gk.Wire(net, kdc, addrs, nil)
	simnet.Install(net)
	limit := map[string]int{"tcp-only": 1, "tcp-first": 20, "udp-first": 32000}[tp.Limit]
	yes := true
	// how krb5.conf names the KDCs: the default port may be left out, an IPv6 address may come with or
	// without brackets
	confKDCs := append([]string{}, addrs...)
	for i := range confKDCs {
		switch tp.KDCForm {
		case "v4-noport", "v6-noport":
			confKDCs[i] = strings.TrimSuffix(confKDCs[i], ":88")
		case "v6-bare-noport":
			confKDCs[i] = strings.Trim(strings.TrimSuffix(confKDCs[i], ":88"), "[]")
		}
	}
	if tp.KDCForm != "" {
		res.Probes["kdc-named-without-port-or-as-ipv6-address"]++
	}
	if tp.Split != "" && tp.NKDC > 1 {
		res.Probes["realm-configured-in-two-blocks"]++
	}
	cm := gk.ConfModel{DefaultRealm: "SIM.TEST", UDPLimit: limit, NoAddresses: &yes, Realms: map[string][]string{"SIM.TEST": confKDCs},
		SplitRealms: tp.Split, KPasswd: map[string][]string{"SIM.TEST": kpAddrs}, DomainRealm: map[string]string{".sim.test": "SIM.TEST"}, TktEtypes: []string{gk.EtypeNames[18]}, TGSEtypes: []string{gk.EtypeNames[18]}}
	cfg, _, err := cm.Parse()
	if err != nil {
		res.Verdict, res.Harness = "harness-error", "krb5.conf: "+err.Error()
		return
	}
	var cl *client.Client
	if kpPhase {
		cl = client.NewWithPassword("alice", "SIM.TEST", oldPassword, cfg)
	} else {
		kt, _, err := gk.UserKeytab(kdc, "alice")
		if err != nil {
			res.Verdict, res.Harness = "harness-error", "keytab: "+err.Error()
			return
		}
		cl = gk.NewKeytabClient("alice", "SIM.TEST", kt, cfg)
	}
	target := addrs // the endpoints the behaviours of the tape apply to
	if kpPhase {
		target = kpAddrs
	}
	beh := map[string]world.Behaviour{}
	behNames := map[string]string{}
	for k, b := range tp.Beh {
		parts := strings.SplitN(k, "!", 2)
		i, e := strconv.Atoi(parts[len(parts)-1])
		if len(parts) != 2 || e != nil || i < 0 || i >= tp.NKDC || (parts[0] != "udp" && parts[0] != "tcp") {
			continue
		}
		beh[parts[0]+"!"+target[i]] = b
		behNames[k] = fmt.Sprintf("%s(%d)", b.Kind, b.Arg)
	}
	// a client that dials without end cannot be simulated to the end of its call: the run stops at
	// 200 connection attempts (the bound judged below is 8 per endpoint) and is judged as unbounded
	dialsInRun := 0
	engine.AbortHook = func(kind, detail string, r *core.Result) {
		if kind == "dial-flood" {
			engine.Violate(r, "unbounded-attempts|"+tp.Limit, map[string]interface{}{"detail": detail, "limit": tp.Limit, "phase": tp.Phase, "behaviour": behNames})
			return
		}
		r.Verdict, r.Harness = "harness-error", kind+": "+detail
	}
	net.OnDial = func(proto, addr string) {
		dialsInRun++
		if dialsInRun > 200 {
			simrt.Abort("dial-flood", fmt.Sprintf("%d connection attempts within one run", dialsInRun))
		}
	}
	var opErr error
	var t0, t1 int64
	var panicMsg string
	changedWithErr := false
	done := simrt.Spawn(1, "client", simrt.Sched{Mode: "min"}, func() {
		if tp.Phase == "tgs" {
			// log in over a healthy network first, then let the faults in
			if err := cl.Login(); err != nil {
				// every configured KDC answers correctly over every transport: whatever is out of the
				// ordinary (the size of the answer, how krb5.conf names the servers) does not excuse a failure
				what := "plain"
				switch {
				case tp.Split != "":
					what = "realm-in-two-" + tp.Split + "s"
				case tp.KDCForm != "":
					what = "kdc-form-" + tp.KDCForm
				case tp.BigTkt > 0:
					what = "large-reply"
				}
				engine.Violate(res, "answer-not-returned|all-endpoints-answer|"+what+"|"+tp.Limit, map[string]interface{}{"err": err.Error(), "ticket_authdata_bytes": tp.BigTkt, "kdc_form": tp.KDCForm})
				return
			}
		}
		net.Beh = beh
		mark := len(net.Events())
		_ = mark
		t0 = simrt.NowNs()
		p, frame, msg := engine.Guard(func() {
			switch tp.Phase {
			case "tgs":
				_, _, opErr = cl.GetServiceTicket("HTTP/host.sim.test")
			case "kpasswd":
				var ok bool
				ok, opErr = cl.ChangePasswd(newPassword)
				if !ok && opErr == nil {
					opErr = fmt.Errorf("ChangePasswd returned false without an error")
				}
				if ok && opErr != nil {
					changedWithErr = true
				}
			default:
				opErr = cl.Login()
			}
		})
		if p {
			panicMsg = frame + ": " + msg
			opErr = fmt.Errorf("panic: %s", panicMsg)
		}
		t1 = simrt.NowNs()
	})
	if late := simrt.WaitTimeout(24*time.Hour, done); len(late) > 0 {
		engine.Violate(res, "no-return-within-a-simulated-day|"+tp.Limit, detail{Limit: tp.Limit, Phase: tp.Phase, Beh: behNames})
		return
	}
	if res.Verdict != "ok" {
		return
	}
	if done.Panic != nil {
		res.Verdict, res.Harness = "harness-error", fmt.Sprintf("client task panicked: %v\n%s", done.Panic, done.Stack)
		return
	}
	// ---- model: allowed outcomes from the statement
	permitted := []string{"tcp", "udp"}
	first, second := "udp", "tcp"
	if tp.Limit != "udp-first" {
		first, second = "tcp", "udp"
	}
	if tp.Limit == "tcp-only" {
		permitted = []string{"tcp"}
		second = ""
	}
	cls := map[string]epClass{}
	for i := 0; i < tp.NKDC; i++ {
		for _, p := range []string{"udp", "tcp"} {
			cls[fmt.Sprintf("%s!%d", p, i)] = classify(tp.Beh[fmt.Sprintf("%s!%d", p, i)], p)
		}
	}
	count := func(proto string, f func(epClass) bool) int {
		n := 0
		for i := 0; i < tp.NKDC; i++ {
			if f(cls[fmt.Sprintf("%s!%d", proto, i)]) {
				n++
			}
		}
		return n
	}
	isGood := func(c epClass) bool { return c.good }
	isErr := func(c epClass) bool { return c.code > 0 }
	isTB := func(c epClass) bool { return c.toobig }
	good, errs, tb := 0, 0, 0
	allowed := map[string]bool{}
	for _, p := range permitted {
		good += count(p, isGood)
		errs += count(p, isErr)
		tb += count(p, isTB)
		for i := 0; i < tp.NKDC; i++ {
			if c := cls[fmt.Sprintf("%s!%d", p, i)]; c.code > 0 {
				allowed[fmt.Sprintf("err:%d", c.code)] = true
			}
		}
	}
	tcpGood := count("tcp", isGood)
	if good > 0 {
		allowed["success"] = true
	}
	if tb > 0 && tcpGood == 0 {
		allowed["fail"] = true
		allowed["err:52"] = true
	}
	if good == 0 && errs == 0 {
		allowed["fail"] = true
	}
	open := false
	if tp.Limit == "tcp-only" && good == 0 && count("udp", isGood) > 0 {
		open = true // a working endpoint exists only on a transport the configuration does not permit
		allowed["success"] = true
	}
	okName := "success"
	if kpPhase {
		// The change-password exchange is not a KDC exchange: gokrb5 sends it over the one transport
		// the size preference selects and has no second transport.  What the statement says about
		// servers that refuse, time out or close early on that transport, about KRB-ERRORs and about
		// bounded attempts is judged; what only the other transport could deliver is left open.
		if tp.Refuse != 0 {
			okName = fmt.Sprintf("refused:%d", tp.Refuse)
		}
		sel, other := "tcp", "udp"
		if tp.Limit == "udp-first" {
			sel, other = "udp", "tcp"
		}
		first, second = sel, other
		good, errs, tb = count(sel, isGood), count(sel, isErr), count(sel, isTB)
		allowed = map[string]bool{}
		open = false
		for i := 0; i < tp.NKDC; i++ {
			if c := cls[fmt.Sprintf("%s!%d", sel, i)]; c.code > 0 {
				allowed[fmt.Sprintf("err:%d", c.code)] = true
			}
		}
		if good > 0 {
			allowed[okName] = true
		}
		if tb > 0 {
			allowed["err:52"] = true
		}
		if good == 0 && errs == 0 && tb == 0 {
			allowed["fail"] = true
		}
		if good == 0 && count(other, isGood) > 0 {
			open = true
			allowed[okName] = true
		}
	}
	// ---- observation
	obs := "success"
	if opErr != nil {
		obs = "fail"
		if m := kadminRe.FindStringSubmatch(opErr.Error()); m != nil && kpPhase {
			obs = "refused:" + m[1]
		} else if m := krbErrRe.FindStringSubmatch(opErr.Error()); m != nil {
			obs = "err:" + m[1]
		}
	}
	dials := map[string]int{}
	reqDials := map[string]int{}
	var order []string
	for _, e := range net.Events() {
		if e.At < t0 {
			continue
		}
		switch e.What {
		case "dial", "dial-refused", "dial-timeout":
			dials[e.Proto+"!"+e.Addr]++
			order = append(order, e.Proto+"!"+e.Addr)
		case "request":
			reqDials[e.ReqID+"|"+e.Proto+"!"+e.Addr]++
		}
	}
	var al []string
	for k := range allowed {
		al = append(al, k)
	}
	sort.Strings(al)
	d := detail{Limit: tp.Limit, Phase: tp.Phase, Beh: behNames, Allowed: al, Observed: obs, Dials: dials, SimS: float64(t1-t0) / 1e9, Order: order}
	if opErr != nil {
		d.Err = opErr.Error()
		if len(d.Err) > 400 {
			d.Err = d.Err[:400]
		}
	}
	if kpPhase {
		for _, c := range kp.Changes() {
			d.Server = append(d.Server, fmt.Sprintf("client=%s target=%s applied=%v code=%d %s", c.Client, c.Target, c.Applied, c.Code, c.Note))
		}
	}
	// pattern class for the signature
	firstGood, secondGood := count(first, isGood), 0
	if second != "" {
		secondGood = count(second, isGood)
	}
	pattern := "no-good-endpoint"
	switch {
	case firstGood > 0 && count(first, func(c epClass) bool { return c.dead }) > 0:
		pattern = "first-transport-has-good-and-dead"
	case firstGood > 0:
		pattern = "first-transport-good"
	case secondGood > 0:
		pattern = "first-transport-all-dead-second-has-good"
	}
	if errs > 0 {
		pattern += "+krb-error-present"
	}
	if tb > 0 {
		pattern += "+too-big-present"
	}
	frag := false
	for k, b := range tp.Beh {
		if b.Kind == "fragment" && b.Arg < 4 && strings.HasPrefix(k, "tcp") {
			frag = true
		}
		if b.Kind == "close" && b.Arg > 0 && b.Arg < 4 && strings.HasPrefix(k, "tcp") {
			res.Probes["close-inside-prefix"]++
		}
	}
	if frag {
		pattern += "+prefix-fragmented"
		res.Probes["tcp-reply-fragmented-in-length-prefix"]++
	}
	// probes
	if firstGood == 0 && secondGood > 0 && errs == 0 && tb == 0 && count(first, func(c epClass) bool { return c.dead }) == tp.NKDC {
		res.Probes["first-transport-all-dead-second-good"]++
	}
	if errs > 0 && good > 0 {
		res.Probes["krb-error-and-good-coexist"]++
	}
	if tb > 0 && tcpGood > 0 {
		res.Probes["too-big-then-tcp"]++
	}
	if good == 0 && errs == 0 && tb == 0 {
		res.Probes["nothing-works"]++
	}
	if open {
		res.Probes["tcp-only-udp-alive"]++
		res.Stats["dont_care"]++
	}
	for k, v := range net.Fired {
		res.Faults[k] += v
	}
	// ---- judge
	if !allowed[obs] {
		kind := "outcome-not-allowed"
		switch {
		case obs != okName && len(al) == 1 && al[0] == okName:
			kind = "must-succeed-but-failed"
			if okName != "success" {
				kind = "refusal-of-the-server-not-surfaced"
			}
		case obs == "success":
			kind = "must-fail-but-succeeded"
		case strings.HasPrefix(obs, "err:"):
			kind = "unexpected-krb-error-code"
		case obs == "fail" && errs > 0:
			kind = "krb-error-not-surfaced"
		}
		if panicMsg != "" {
			kind = "panic"
		}
		if tp.Split != "" && tp.NKDC > 1 && (kind == "must-succeed-but-failed" || kind == "krb-error-not-surfaced" || kind == "refusal-of-the-server-not-surfaced" || kind == "outcome-not-allowed") {
			engine.Violate(res, kind+"|"+tp.Limit+"|realm-in-two-"+tp.Split+"s", d)
		} else if tp.KDCForm != "" && (kind == "must-succeed-but-failed" || kind == "krb-error-not-surfaced" || kind == "refusal-of-the-server-not-surfaced") {
			// how krb5.conf names the servers matters more than the shape of the endpoint assignment
			engine.Violate(res, kind+"|"+tp.Limit+"|kdc-form-"+tp.KDCForm, d)
		} else if tp.BigTkt > 0 && kind == "must-succeed-but-failed" {
			// the shape of the endpoint assignment matters less than the size of the answer
			engine.Violate(res, kind+"|"+tp.Limit+"|large-reply", d)
		} else {
			engine.Violate(res, kind+"|"+tp.Limit+"|"+pattern, d)
		}
	}
	if kpPhase {
		// "returns that answer": success is reported only for a change that a server applied
		applied := false
		for _, c := range kp.Changes() {
			if c.Applied && c.Client == "alice" && c.NewPasswd == newPassword {
				applied = true
			}
		}
		if obs == "success" && !applied {
			engine.Violate(res, "kpasswd-success-without-an-applied-change|"+tp.Limit, d)
		}
		if changedWithErr {
			engine.Violate(res, "kpasswd-success-with-error|"+tp.Limit, d)
		}
		if tp.Refuse != 0 {
			res.Probes["kpasswd-refused-by-policy"]++
		}
		res.Probes["kpasswd-exchange"]++
	}
	// bounded attempts: no endpoint is dialled without bound for one operation, and the call ends
	// within a bounded simulated time (both bounds far above anything reasonable)
	for ep, n := range dials {
		if n > 8 {
			engine.Violate(res, "unbounded-attempts|"+tp.Limit, map[string]interface{}{"endpoint": ep, "dials": n, "detail": d})
		}
	}
	if t1-t0 > int64(time.Duration(tp.NKDC*2*8)*10*time.Minute) {
		engine.Violate(res, "unbounded-time|"+tp.Limit, d)
	}
	var bl []string
	for i := 0; i < tp.NKDC; i++ {
		bl = append(bl, behNames[fmt.Sprintf("udp!%d", i)]+"/"+behNames[fmt.Sprintf("tcp!%d", i)])
	}
	res.Class = fmt.Sprintf("%s|%s|%s|%s", tp.Limit, tp.Phase, strings.Join(bl, ","), obs)
	for _, b := range tp.Beh {
		if b.Kind != "answer" {
			res.Nontrivial = true
		}
	}
	simrt.Logf("limit=%s phase=%s allowed=%v observed=%s dials=%v", tp.Limit, tp.Phase, al, obs, order)
}
