// Package c12 is the engine for property C12: a KDC exchange succeeds whenever some configured
// KDC and transport works.  Real: Client.Login / GetServiceTicket down to sendToKDC, dialSend*,
// sendTCP/UDP, checkForKRBError, Config.GetKDCs, the krb5.conf parser.  Simulated: 1-3 KDC
// addresses x {udp,tcp} endpoints with scripted behaviour, the reference KDC behind those that
// answer, the fake clock (connection deadlines cost nothing).
package c12

import (
	"encoding/json"
	"fmt"

	"verifsim/core"
	"verifsim/engine"
	"verifsim/world"
)

type Tape struct {
	Engine  string                     `json:"engine"`
	RunSeed uint64                     `json:"run_seed"`
	NKDC    int                        `json:"nkdc"`
	Limit   string                     `json:"limit"`                  // tcp-only | tcp-first | udp-first
	Beh     map[string]world.Behaviour `json:"beh"`                    // "udp!0" ... "tcp!2"
	Phase   string                     `json:"phase"`                  // as | tgs | kpasswd (the behaviours then apply to the kpasswd servers)
	Refuse  int                        `json:"refuse,omitempty"`       // kpasswd: result code with which the server refuses by policy
	KDCForm string                     `json:"kdc_form,omitempty"`     // how krb5.conf names the KDCs: "" = ipv4:port | v4-noport | v6-port | v6-noport | v6-bare-noport
	Split   string                     `json:"split_realms,omitempty"` // the realm's KDCs are configured in two blocks of the same name: block | section
	ErrSName string                    `json:"error_sname,omitempty"`  // refkdc.Policy.ErrorSName: form of the sname in the KDCs' KRB-ERRORs
	BigTkt  int                        `json:"big_ticket,omitempty"`   // tickets carry this many bytes of authorization data: replies beyond the classic UDP sizes
}

// the six behaviours named in the property's quantifier
var named = []string{"answer", "refuse", "close", "silent", "krberror", "toobig"}

func pow(b, e int) int {
	r := 1
	for ; e > 0; e-- {
		r *= b
	}
	return r
}

// number of enumerated assignments for 1..n KDCs
func sweepSize(maxKDC int) int {
	t := 0
	for n := 1; n <= maxKDC; n++ {
		t += pow(len(named), 2*n) * 3
	}
	return t
}

func Meta() core.Meta {
	return core.Meta{
		Engine: "c12", Property: "C12", Level: "fault_enumeration",
		Rule:       "case = one run: a behaviour from {answers, refuses, closes early, silent, KRB-ERROR, response-too-big on UDP} (seeded variants: fragmented TCP replies, close offsets 0/2/4/mid-body, slow-but-answering, connect time-outs, error codes) assigned to every (KDC, transport) endpoint of 1-3 configured KDCs x udp_preference_limit class {1, below the request size, above it} x AS, TGS or change-password exchange x seed of the server order; sweep = complete enumeration of the named behaviours for 1-2 KDCs (quick) and 1-3 KDCs (thorough, 143964 assignments); distinct = distinct (assignment with variants, limit class, phase, outcome); non-trivial = at least one endpoint does not simply answer",
		SweepQuick: sweepSize(2), SweepThorough: sweepSize(3),
		SeededQuick: 4000, SeededThorough: 150000,
		WorkloadProbes: []string{"first-transport-all-dead-second-good", "tcp-reply-fragmented-in-length-prefix", "krb-error-and-good-coexist", "too-big-then-tcp", "nothing-works", "tcp-only-udp-alive", "close-inside-prefix", "kpasswd-exchange", "kpasswd-refused-by-policy", "large-reply", "kdc-named-without-port-or-as-ipv6-address", "realm-configured-in-two-blocks"},
		Components: map[string]string{
			"client.Login, GetServiceTicket, ASExchange, TGSExchange, sendToKDC, sendKDCTCP/UDP, dialSendTCP/UDP, sendTCP/UDP, checkForKRBError, config.GetKDCs, krb5.conf parser": "real",
			"net in client/network.go": "shim: simulated transport (connect, segments, datagrams, deadlines on the fake clock)",
			"KDC":                      "stub: refkdc reference model",
			"client.ChangePasswd, sendToKPasswd, kadmin.ChangePasswdMsg, kadmin.Reply (anchor v8/client/passwd.go)": "real",
			"kpasswd servers":                            "stub: refkdc.KPasswd, a reference implementation of RFC 3244 over the reference KDC's database",
			"math/rand global source (server order)":     "real, seeded per run",
			"DNS SRV discovery of KDCs (dns_lookup_kdc)": "not simulated: KDCs are always configured",
		},
		Assumptions: []string{
			"change-password exchange (a quarter of the runs): it is not a KDC exchange and gokrb5 gives it one transport (by request size) and no second; endpoints of that transport are judged like KDC endpoints (fail-over over servers, KRB-ERROR surfaced, bounded attempts, success only for an applied change), what only the other transport could deliver is left open",
			"an endpoint that answers after 300ms of latency counts as answering; one that needs an hour counts as silent (no client time-out constant is mirrored)",
			"when endpoints returning a KRB-ERROR coexist with working ones the allowed outcomes are the union over server orders",
			"a working endpoint reachable only over a transport the limit class does not permit (udp_preference_limit=1, UDP only) leaves the outcome open",
		},
		Exhaustive:    true,
		ChildTimeoutS: 60,
	}
}

var errCodes = []int64{6, 12, 14, 18, 60, 68, 68}

func Gen(caseID, tier string) (json.RawMessage, error) {
	kind, n, err := engine.ParseCase(caseID)
	if err != nil {
		return nil, err
	}
	limits := []string{"tcp-only", "tcp-first", "udp-first"}
	if kind == "sweep" {
		idx := int(n)
		nk := 1
		for ; nk <= 3; nk++ {
			sz := pow(len(named), 2*nk) * 3
			if idx < sz {
				break
			}
			idx -= sz
		}
		if nk > 3 {
			return nil, fmt.Errorf("sweep index out of range")
		}
		r := core.NewRng(n).Derive("c12sweep")
		tp := Tape{Engine: "c12", RunSeed: 0xc12<<40 | n, NKDC: nk, Limit: limits[idx%3], Beh: map[string]world.Behaviour{}, Phase: "as"}
		idx /= 3
		switch r.Intn(4) {
		case 0:
			tp.Phase = "tgs"
		case 1:
			tp.Phase = "kpasswd"
		}
		for i := 0; i < nk; i++ {
			for _, p := range []string{"udp", "tcp"} {
				k := named[idx%len(named)]
				idx /= len(named)
				tp.Beh[fmt.Sprintf("%s!%d", p, i)] = variant(k, p, r)
			}
		}
		return core.MustJSON(tp), nil
	}
	r := core.NewRng(n).Derive("c12")
	tp := Tape{Engine: "c12", RunSeed: n, NKDC: r.Range(1, 3), Limit: limits[r.Intn(3)], Beh: map[string]world.Behaviour{}, Phase: r.Pick("as", "as", "tgs", "kpasswd")}
	if tp.Phase == "kpasswd" && r.Chance(1, 6) {
		tp.Refuse = r.PickInt(2, 3, 4, 5)
	}
	shape := r.Intn(6)
	for i := 0; i < tp.NKDC; i++ {
		for _, p := range []string{"udp", "tcp"} {
			var k string
			switch shape {
			case 0: // first transport dead everywhere, second has exactly one good endpoint
				first := "udp"
				if tp.Limit != "udp-first" {
					first = "tcp"
				}
				if p == first {
					k = r.Pick("refuse", "close", "silent", "dialtimeout", "slow-late")
				} else if i == int(n%uint64(tp.NKDC)) {
					k = r.Pick("answer", "fragment", "slow-ok")
				} else {
					k = r.Pick("refuse", "close", "silent")
				}
			case 1: // healthy but awkward: fragmentation and latency only
				k = r.Pick("answer", "fragment", "fragment", "slow-ok")
			case 2: // nothing works
				k = r.Pick("refuse", "close", "silent", "dialtimeout", "slow-late")
			default:
				k = r.Pick("answer", "fragment", "slow-ok", "refuse", "close", "silent", "dialtimeout", "slow-late", "krberror", "toobig")
			}
			tp.Beh[fmt.Sprintf("%s!%d", p, i)] = variant(k, p, r)
		}
	}
	if r.Chance(1, 6) {
		tp.KDCForm = r.Pick("v4-noport", "v6-port", "v6-noport", "v6-bare-noport")
	}
	if tp.NKDC > 1 && r.Chance(1, 6) {
		tp.Split = r.Pick("block", "section")
	}
	if r.Chance(1, 3) {
		tp.ErrSName = r.Pick("empty", "empty", "krbtgt")
	}
	if tp.Phase != "kpasswd" && r.Chance(1, 6) {
		// a correct answer may be a large datagram (a ticket with a long PAC): up to 64 KiB fit
		tp.BigTkt = r.PickInt(3000, 4500, 9000, 30000, 60000)
	}
	return core.MustJSON(tp), nil
}

// variant turns a behaviour name into a concrete behaviour with seeded parameters.
func variant(k, proto string, r *core.Rng) world.Behaviour {
	switch k {
	case "answer":
		if proto == "tcp" && r.Chance(1, 4) {
			return world.Behaviour{Kind: "fragment", Arg: int64(r.PickInt(1, 2, 3, 5, 100))}
		}
		if r.Chance(1, 8) {
			return world.Behaviour{Kind: "slow", Arg: 300_000_000}
		}
		return world.Behaviour{Kind: "answer"}
	case "fragment":
		if proto != "tcp" {
			return world.Behaviour{Kind: "answer"}
		}
		return world.Behaviour{Kind: "fragment", Arg: int64(r.PickInt(1, 2, 3, 5, 100))}
	case "slow-ok":
		return world.Behaviour{Kind: "slow", Arg: 300_000_000}
	case "slow-late":
		return world.Behaviour{Kind: "slow", Arg: 3_600_000_000_000}
	case "close":
		return world.Behaviour{Kind: "close", Arg: int64(r.PickInt(0, 2, 4, 40))}
	case "krberror":
		return world.Behaviour{Kind: "krberror", Arg: errCodes[r.Intn(len(errCodes))]}
	case "toobig":
		if proto != "udp" {
			return world.Behaviour{Kind: "answer"}
		}
		return world.Behaviour{Kind: "toobig"}
	case "dialtimeout":
		if proto != "tcp" {
			return world.Behaviour{Kind: "silent"}
		}
		return world.Behaviour{Kind: "dialtimeout"}
	}
	return world.Behaviour{Kind: k}
}
