// Package c01 is the engine for property C01: the service accepts an AP-REQ exactly when RFC
// 4120 3.2.3 says it is valid.  Real: messages.APReq.Unmarshal, service.VerifyAPREQ and all below
// it, keytab.Unmarshal.  Simulated: the reference KDC/client minting requests (refkrb), the
// adversarial network applying defects, the fake clock placed exactly on and next to each bound.
package c01

import (
	"encoding/json"
	"fmt"
	"strings"

	"verifsim/core"
	"verifsim/engine"
	"verifsim/world"
)

type Pres struct {
	ThinkNs     int64         `json:"think_ns,omitempty"`
	Spec        world.ReqSpec `json:"spec"`
	ReplayOf    int           `json:"replay_of"`     // -1, else re-present the bytes of presentation #k
	ReuseTicket int           `json:"reuse_ticket"`  // reserved
	Via         string        `json:"via,omitempty"` // "" reference client
}

type KtSpec struct {
	Services []string `json:"services"`
	Realms   []string `json:"realms"`
	Kvnos    []int    `json:"kvnos"`
	Etypes   []int    `json:"etypes"`
}

type Tape struct {
	Engine   string                `json:"engine"`
	RunSeed  uint64                `json:"run_seed"`
	Settings world.ServiceSettings `json:"settings"`
	Keytab   KtSpec                `json:"keytab"`
	Pres     []Pres                `json:"pres"`
}

// the defect catalogue: kind, and the arguments swept for it
type catEntry struct {
	kind string
	args []int64
}

var second = int64(1_000_000_000)

var catalogue = []catEntry{
	{"wrong-key", nil}, {"wrong-kvno-label", []int64{1, 256, 512, 65536, 16777216}}, {"wrong-etype-label", nil}, {"wrong-realm-label", nil},
	{"wrong-sname-label", nil}, {"sname-empty", nil}, {"ticket-usage", nil}, {"auth-usage-7", nil},
	{"auth-wrong-key", nil}, {"auth-etype-label", nil},
	{"t-end", []int64{-second, -1, 0, 1, second}},
	{"t-start", []int64{-second, -1, 0, 1, second}},
	{"t-authtime-future", []int64{-second, -1, 1, second}},
	{"t-ctime-old", []int64{-1000, -1, 0, 1, 1000}},
	{"t-ctime-future", []int64{-1000, -1, 0, 1, 1000}},
	{"flag-invalid", nil},
	{"tkt-flip", nil}, {"tkt-trunc", nil}, {"tkt-extend", nil}, {"tkt-forged-plain-appended", nil}, {"tkt-extra-optionals", nil},
	{"auth-flip", nil}, {"auth-trunc", nil}, {"auth-extend", nil},
	{"cname-mismatch", nil}, {"cname-extra-component", nil}, {"cname-fewer-components", nil}, {"cname-empty", nil}, {"crealm-mismatch", nil},
	{"sname-label-krbtgt", nil},
	{"pac-flipped", nil}, {"pac-wrongkey", nil}, {"pac-sigflipped", nil}, {"pac-truncated", nil}, {"pac-nosig", nil}, {"pac-noinfo", nil},
}

// valid variations that must be accepted (no defect): expressed as spec tweaks
var variants = []string{"plain", "pac-valid", "no-kvno-field", "no-starttime", "subkey", "seq", "cksum", "nametype", "addr-match", "addr-both", "old-kvno", "other-realm", "other-service", "replay", "fresh-auth"}

type single struct {
	defect  string
	arg     int64
	variant string
}

func singles() []single {
	var out []single
	for _, v := range variants {
		out = append(out, single{variant: v})
	}
	for _, c := range catalogue {
		if c.args == nil {
			out = append(out, single{defect: c.kind})
		}
		for _, a := range c.args {
			out = append(out, single{defect: c.kind, arg: a})
		}
	}
	return out
}

var etypes = []int{17, 18, 19, 20, 16, 23}

// settings combinations swept in the thorough tier
func settingsCombos() []world.ServiceSettings {
	var out []world.ServiceSettings
	for _, sk := range []int64{0, 1, 300, 3600} {
		for _, ra := range []bool{false, true} {
			for _, ca := range []string{"", "match", "other"} {
				for _, kp := range []string{"", "HTTP/host.sim.test", "HTTP/other.sim.test"} {
					out = append(out, world.ServiceSettings{SkewS: sk, RequireAddr: ra, ClientAddr: ca, KtPrinc: kp, DecodePAC: sk%2 == 0})
				}
			}
		}
	}
	// a configured skew below one second (appended, so that earlier sweep indices keep their meaning)
	for _, ra := range []bool{false, true} {
		for _, ca := range []string{"", "match", "other"} {
			for _, kp := range []string{"", "HTTP/host.sim.test", "HTTP/other.sim.test"} {
				out = append(out, world.ServiceSettings{SkewMs: 500, RequireAddr: ra, ClientAddr: ca, KtPrinc: kp, DecodePAC: ra})
			}
		}
	}
	return out
}

func Meta() core.Meta {
	ns := len(singles()) * len(etypes)
	return core.Meta{
		Engine: "c01", Property: "C01", Level: "exploration",
		Rule:       "case = one run: a service (keytab parsed from reference-written bytes, settings from the tape) receives 1-6 AP-REQs minted by the reference implementation, each a valid request or one carrying 1-2 catalogue defects, presented at an instant placed exactly on / 1ns / 1us / 1s beside the time bound concerned; sweep = every single defect and valid variant x 6 etypes (thorough: x 72 settings combinations); distinct = distinct (settings, etype, defect set with argument, model verdict, outcome); non-trivial = at least one defect, a replay or a non-default setting involved",
		SweepQuick: ns, SweepThorough: ns * len(settingsCombos()),
		SeededQuick: 6000, SeededThorough: 400000,
		WorkloadProbes: []string{"bound-plus-1ns", "bound-minus-1ns", "replayed", "pair-of-defects", "valid-accept-expected", "override-principal", "address-required", "pac-valid", "pac-invalid-with-decoding-enabled", "pac-invalid-with-decoding-disabled", "old-then-fresh-then-replay"},
		Components: map[string]string{
			"messages.APReq.Unmarshal, service.VerifyAPREQ, APReq.Verify, Ticket.DecryptEncPart/Valid, keytab.Unmarshal/GetEncryptionKey, crypto (6 etypes), replay cache": "real",
			"KDC and client that mint tickets/authenticators, attacker on the path":                                                                                        "stub: refkrb (independent DER + RFC 3961/3962/8009/4757 implementation)",
			"time": "real package on the synctest fake clock",
		},
		Assumptions: []string{
			"at exact equality with a time bound the statement is taken to allow either answer; 1ns inside must accept, 1ns outside must reject",
			"a ticket that lists addresses, presented to a service that was given no client address, may be accepted or refused (statement silent)",
			"an absent starttime means the ticket is valid from its authtime (RFC 4120 5.3)",
		},
		ChildTimeoutS: 60,
	}
}

func baseSpec(et int) world.ReqSpec {
	return world.ReqSpec{Client: "alice", Svc: "HTTP/host.sim.test", Realm: "SIM.TEST", Kvno: 2, Etype: et, KvnoField: true, StartTime: true}
}

func fullKeytab() KtSpec {
	return KtSpec{Services: []string{"HTTP/host.sim.test", "HTTP/other.sim.test"}, Realms: []string{"SIM.TEST", "OTHER.TEST"}, Kvnos: []int{1, 2}, Etypes: etypes}
}

func applyVariant(p *Pres, v string, st *world.ServiceSettings, pres *[]Pres) {
	switch v {
	case "pac-valid":
		p.Spec.PAC = "valid"
	case "no-kvno-field":
		p.Spec.KvnoField = false // newest key (kvno 2) sealed it
	case "no-starttime":
		p.Spec.StartTime = false
	case "subkey":
		p.Spec.Subkey = true
	case "seq":
		p.Spec.Seq = true
	case "cksum":
		p.Spec.Cksum = true
	case "nametype":
		p.Spec.NameType = 10
	case "addr-match":
		p.Spec.Addrs = "match"
		if st.ClientAddr == "" {
			st.ClientAddr = "match"
		}
	case "addr-both":
		p.Spec.Addrs = "both"
		if st.ClientAddr == "" {
			st.ClientAddr = "match"
		}
	case "old-kvno":
		p.Spec.Kvno = 1
	case "other-realm":
		p.Spec.Realm = "OTHER.TEST"
	case "other-service":
		p.Spec.Svc = "HTTP/other.sim.test"
	case "replay":
		*pres = append(*pres, *p)
		p.ReplayOf = 0
		p.ThinkNs = 1_500_000_000
	case "fresh-auth":
		*pres = append(*pres, *p)
		p.ThinkNs = 1_500_000_000
	}
}

func Gen(caseID, tier string) (json.RawMessage, error) {
	kind, n, err := engine.ParseCase(caseID)
	if err != nil {
		return nil, err
	}
	if kind == "sweep" {
		ss := singles()
		combos := settingsCombos()
		per := len(ss) * len(etypes)
		ci := int(n) / per
		if ci >= len(combos) {
			return nil, fmt.Errorf("sweep index out of range")
		}
		rem := int(n) % per
		s := ss[rem/len(etypes)]
		et := etypes[rem%len(etypes)]
		tp := Tape{Engine: "c01", RunSeed: 0xc01<<32 | n, Keytab: fullKeytab()}
		if tier == "thorough" {
			tp.Settings = combos[ci]
		} else {
			tp.Settings = world.ServiceSettings{SkewS: 300, DecodePAC: true}
		}
		p := Pres{Spec: baseSpec(et), ReplayOf: -1, ReuseTicket: -1, ThinkNs: 1000}
		if s.defect != "" {
			p.Spec.Defects = []world.Defect{{Kind: s.defect, Arg: s.arg}}
		} else {
			applyVariant(&p, s.variant, &tp.Settings, &tp.Pres)
		}
		tp.Pres = append(tp.Pres, p)
		return core.MustJSON(tp), nil
	}
	r := core.NewRng(n).Derive("c01")
	tp := Tape{Engine: "c01", RunSeed: n}
	// settings (swarm: most runs keep most settings at their defaults)
	tp.Settings.SkewS = int64(r.PickInt(0, 0, 1, 300, 300, 3600))
	if r.Chance(1, 8) {
		// a configured skew need not be a whole number of seconds (nor as much as one)
		tp.Settings.SkewS, tp.Settings.SkewMs = int64(r.PickInt(0, 0, 0, 1, 2)), int64(r.PickInt(1, 250, 500, 999))
	}
	if r.Chance(1, 4) {
		tp.Settings.RequireAddr = true
	}
	if r.Chance(1, 3) {
		tp.Settings.ClientAddr = r.Pick("match", "match", "other", "match6")
	}
	if r.Chance(1, 4) {
		tp.Settings.KtPrinc = r.Pick("HTTP/host.sim.test", "HTTP/other.sim.test")
	}
	tp.Settings.DecodePAC = r.Chance(1, 2)
	// keytab: 1-2 services, 1-2 realms, 1-3 kvnos, 1-3 etypes (always containing the etypes used)
	tp.Keytab = KtSpec{Services: []string{"HTTP/host.sim.test"}, Realms: []string{"SIM.TEST"}, Kvnos: []int{2}}
	if r.Chance(1, 2) {
		tp.Keytab.Services = append(tp.Keytab.Services, "HTTP/other.sim.test")
	}
	if r.Chance(1, 2) {
		tp.Keytab.Realms = append(tp.Keytab.Realms, "OTHER.TEST")
	}
	if r.Chance(1, 2) {
		tp.Keytab.Kvnos = []int{1, 2}
		if r.Chance(1, 2) {
			tp.Keytab.Kvnos = []int{1, 2, 3}
		}
	} else if r.Chance(1, 3) {
		// key versions beyond 8 bits (the keytab format carries them in its 32-bit trailer), some of
		// them equal modulo 256 or modulo 65536
		tp.Keytab.Kvnos = [][]int{{1, 257}, {255, 256}, {2, 258, 514}, {300}, {3, 65539}}[r.Intn(5)]
	}
	net := r.Range(1, 3)
	perm := r.Perm(len(etypes))
	for i := 0; i < net; i++ {
		tp.Keytab.Etypes = append(tp.Keytab.Etypes, etypes[perm[i]])
	}
	if r.Chance(1, 40) {
		// history shape: one client presents 65-300 valid, distinct requests and then the first one
		// again: however many others the service has seen since, that is still a replay
		et := tp.Keytab.Etypes[0]
		mk := world.ReqSpec{Client: "alice", Svc: tp.Keytab.Services[0], Realm: tp.Keytab.Realms[0], Kvno: tp.Keytab.Kvnos[len(tp.Keytab.Kvnos)-1], Etype: et, KvnoField: true, StartTime: true, LifeS: 36000}
		n := r.Range(65, 100)
		if r.Chance(1, 2) {
			n = r.Range(130, 300)
		}
		for i := 0; i < n; i++ {
			tp.Pres = append(tp.Pres, Pres{Spec: mk, ReplayOf: -1, ThinkNs: int64(r.Range(1, 2000)) * 1000})
		}
		tp.Pres = append(tp.Pres, Pres{Spec: mk, ReplayOf: r.Intn(3), ThinkNs: int64(r.Range(1, 2000)) * 1000})
		return core.MustJSON(tp), nil
	}
	if r.Chance(1, 12) && tp.Settings.SkewS != 1 {
		// history shape: an old but still acceptable authenticator A, a fresh B of the same client, a
		// clean-up of the replay cache after A has aged out, then B again - which must still be a replay
		et := tp.Keytab.Etypes[0]
		mk := func() world.ReqSpec {
			return world.ReqSpec{Client: "alice", Svc: tp.Keytab.Services[0], Realm: tp.Keytab.Realms[0], Kvno: tp.Keytab.Kvnos[len(tp.Keytab.Kvnos)-1], Etype: et, KvnoField: true, StartTime: true, LifeS: 36000}
		}
		a := mk()
		a.Defects = []world.Defect{{Kind: "t-ctime-old", Arg: -second}}
		sk := tp.Settings.Skew().Nanoseconds()
		tp.Pres = []Pres{{Spec: a, ReplayOf: -1, ReuseTicket: -1, ThinkNs: 1000}, {Spec: mk(), ReplayOf: -1, ReuseTicket: -1, ThinkNs: second},
			{Spec: mk(), ReplayOf: 1, ReuseTicket: -1, ThinkNs: sk - 4*second}}
		tp.Settings.RequireAddr, tp.Settings.KtPrinc = false, ""
		return core.MustJSON(tp), nil
	}
	np := r.Range(1, 6)
	for i := 0; i < np; i++ {
		p := Pres{ReplayOf: -1, ReuseTicket: -1}
		switch r.Intn(6) {
		case 0, 1, 2:
			p.ThinkNs = int64(r.Range(0, 5000))
		case 3:
			p.ThinkNs = int64(r.Range(1, 3000)) * 1_000_000
		case 4:
			p.ThinkNs = tp.Settings.Skew().Nanoseconds() / 2
		default:
			p.ThinkNs = tp.Settings.Skew().Nanoseconds()*2 + int64(r.Range(0, 1000))
		}
		if i > 0 && r.Chance(1, 4) {
			p.ReplayOf = r.Intn(i)
			p.Spec = tp.Pres[p.ReplayOf].Spec
			tp.Pres = append(tp.Pres, p)
			continue
		}
		p.Spec = world.ReqSpec{Client: r.Pick("alice", "bob", "alice/admin"), Svc: tp.Keytab.Services[r.Intn(len(tp.Keytab.Services))],
			Realm: tp.Keytab.Realms[r.Intn(len(tp.Keytab.Realms))], Kvno: tp.Keytab.Kvnos[r.Intn(len(tp.Keytab.Kvnos))],
			Etype: tp.Keytab.Etypes[r.Intn(len(tp.Keytab.Etypes))], KvnoField: !r.Chance(1, 5), StartTime: !r.Chance(1, 4),
			Subkey: r.Chance(1, 3), Seq: r.Chance(1, 3), Cksum: r.Chance(1, 3), LifeS: int64(r.PickInt(3600, 36000, 60))}
		if r.Chance(1, 5) {
			p.Spec.NameType = int32(r.PickInt(2, 10))
		}
		if r.Chance(1, 3) {
			p.Spec.Addrs = r.Pick("match", "other", "both", "match6", "other4-match6", "nb-other", "nb-match", "nb-only", "match-bytes-as-type3")
		}
		if r.Chance(1, 4) {
			p.Spec.PAC = r.Pick("valid", "valid", "flipped", "wrongkey", "sigflipped", "truncated", "nosig", "noinfo")
		}
		if r.Chance(1, 8) {
			// a ticket for a service this keytab does not know
			p.Spec.Svc = "HTTP/unknown.sim.test"
		}
		nd := 0
		switch x := r.Intn(10); {
		case x < 3:
			nd = 0
		case x < 8:
			nd = 1
		default:
			nd = 2
		}
		timeUsed := false
		for len(p.Spec.Defects) < nd {
			c := catalogue[r.Intn(len(catalogue))]
			if tp.Settings.KtPrinc != "" && r.Chance(1, 3) {
				// with a keytab principal override the key-selection labels matter in other ways
				c = catalogue[r.Intn(5)] // wrong-key, wrong-kvno-label, wrong-etype-label, wrong-realm-label, wrong-sname-label
			}
			if tp.Settings.KtPrinc != "" && nd == 2 && len(p.Spec.Defects) == 0 && r.Chance(1, 8) {
				// a pair whose members meet in one decision: the clear-text name says "ticket-granting
				// service" and the authenticator is sealed the way one for the TGS is
				p.Spec.Defects = append(p.Spec.Defects, world.Defect{Kind: "sname-label-krbtgt"}, world.Defect{Kind: "auth-usage-7"})
				break
			}
			isTime := len(c.args) > 0 && strings.HasPrefix(c.kind, "t-")
			if isTime && timeUsed {
				continue
			}
			dup := false
			for _, d := range p.Spec.Defects {
				if d.Kind == c.kind {
					dup = true
				}
			}
			if dup {
				continue
			}
			d := world.Defect{Kind: c.kind}
			if len(c.args) > 0 {
				d.Arg = c.args[r.Intn(len(c.args))]
				timeUsed = timeUsed || isTime
			}
			p.Spec.Defects = append(p.Spec.Defects, d)
		}
		tp.Pres = append(tp.Pres, p)
	}
	return core.MustJSON(tp), nil
}
