package c01

import (
	"encoding/hex"
	"encoding/json"
	"fmt"
	"os"
	"sort"
	"strings"
	"syscall"
	"testing"
	"time"

	"github.com/jcmturner/gokrb5/v8/credentials"
	"github.com/jcmturner/gokrb5/v8/keytab"
	"github.com/jcmturner/gokrb5/v8/messages"
	"github.com/jcmturner/gokrb5/v8/service"
	"github.com/jcmturner/gokrb5/v8/test/testdata"
	"github.com/jcmturner/gokrb5/v8/types"

	"verifsim/core"
	"verifsim/engine"
	"verifsim/shim/simsync"
	"verifsim/simrt"
	"verifsim/world"
)

type eng struct{}

func (eng) Meta() core.Meta                             { return Meta() }
func (eng) Gen(c, tier string) (json.RawMessage, error) { return Gen(c, tier) }
func (eng) Run(tape json.RawMessage, res *core.Result)  { run(tape, res) }
func TestSim(t *testing.T) {
	if os.Getenv("VERIF_MODE") == "run" {
		// a damaged PAC can make the NDR decoder of the dependency rpc/v2 ask for tens of gigabytes (a
		// known finding of C04): let that fail at once instead of filling the sandbox's memory
		lim := syscall.Rlimit{Cur: 6 << 30, Max: 6 << 30}
		syscall.Setrlimit(syscall.RLIMIT_AS, &lim)
	}
	engine.Main(t, eng{})
}

type outcome struct {
	Idx      int      `json:"idx"`
	Defects  []string `json:"defects"`
	Model    string   `json:"model"`
	Reasons  []string `json:"reasons,omitempty"`
	Accepted bool     `json:"accepted"`
	Err      string   `json:"err,omitempty"`
	Panic    string   `json:"panic,omitempty"`
	NowNs    int64    `json:"now_ns"`
	DeltaNs  int64    `json:"delta_ns"`
	Etype    int      `json:"etype"`
	User     string   `json:"user,omitempty"`
	Domain   string   `json:"domain,omitempty"`
}

func etFamily(et int) string {
	switch et {
	case 17, 18:
		return "aes-sha1"
	case 19, 20:
		return "aes-sha2"
	case 16:
		return "des3"
	case 23:
		return "rc4"
	}
	return "?"
}

func settingsClass(st world.ServiceSettings) string {
	var p []string
	p = append(p, fmt.Sprintf("skew=%d", st.SkewS))
	if st.SkewMs != 0 {
		p = append(p, fmt.Sprintf("skew_ms=%d", st.SkewMs))
	}
	if st.RequireAddr {
		p = append(p, "reqaddr")
	}
	if st.ClientAddr != "" {
		p = append(p, "caddr="+st.ClientAddr)
	}
	if st.KtPrinc != "" {
		p = append(p, "ktprinc="+st.KtPrinc)
	}
	if st.DecodePAC {
		p = append(p, "pac")
	}
	return strings.Join(p, ",")
}

func run(tapeJSON json.RawMessage, res *core.Result) {
	var tp Tape
	if err := json.Unmarshal(tapeJSON, &tp); err != nil {
		res.Verdict, res.Harness = "invalid", err.Error()
		return
	}
	if len(tp.Pres) < 1 || len(tp.Pres) > 400 || len(tp.Keytab.Services) < 1 || len(tp.Keytab.Realms) < 1 || len(tp.Keytab.Kvnos) < 1 || len(tp.Keytab.Etypes) < 1 {
		res.Verdict, res.Harness = "invalid", "shape"
		return
	}
	if tp.Settings.SkewS < 0 || tp.Settings.SkewS > 86400 || tp.Settings.SkewMs < 0 || tp.Settings.SkewMs > 999 {
		res.Verdict, res.Harness = "invalid", "skew"
		return
	}
	st := tp.Settings
	skew := st.Skew()
	ktm := world.BuildKeytab(tp.RunSeed, tp.Keytab.Services, tp.Keytab.Realms, tp.Keytab.Kvnos, tp.Keytab.Etypes)
	kt := keytab.New()
	if err := kt.Unmarshal(ktm.Bytes()); err != nil {
		res.Verdict, res.Harness = "harness-error", "reference keytab rejected by keytab.Unmarshal: "+err.Error()
		return
	}
	opts := []func(*service.Settings){service.DecodePAC(st.DecodePAC)}
	if st.SkewS != 0 || st.SkewMs != 0 {
		opts = append(opts, service.MaxClockSkew(skew))
	}
	if st.RequireAddr {
		opts = append(opts, service.RequireHostAddr(true))
	}
	switch st.ClientAddr {
	case "match":
		opts = append(opts, service.ClientAddress(types.HostAddress{AddrType: 2, Address: world.ClientAddrMatch}))
	case "other":
		opts = append(opts, service.ClientAddress(types.HostAddress{AddrType: 2, Address: world.ClientAddrOther}))
	case "match6":
		opts = append(opts, service.ClientAddress(types.HostAddress{AddrType: 24, Address: world.ClientAddrMatch6}))
	}
	if st.KtPrinc != "" {
		opts = append(opts, service.KeytabPrincipal(st.KtPrinc))
	}
	settings := service.NewSettings(kt, opts...)
	// the world starts one hour into the bubble at an odd instant, and the replay cache (with its
	// clean-up goroutine) is created there so that its timer never coincides with a presentation
	simsync.Passive = true
	simrt.SleepExact(int64(time.Hour) + 333)
	service.GetReplayCache(skew)

	pacSample, _ := hex.DecodeString(testdata.MarshaledPAC_AD_WIN2K_PAC)
	minter := &world.Minter{Seed: tp.RunSeed, Kt: ktm, PACFor: world.StdPACFor(pacSample, tp.RunSeed)}
	rng := core.NewRng(tp.RunSeed).Derive("mint")
	replay := map[string]bool{}
	taint := map[string]bool{}
	truths := make([]*world.Truth, len(tp.Pres))
	var outs []outcome
	var classParts []string
	res.Evals = 0
	done := simrt.Spawn(1, "presenter", simrt.Sched{Mode: "min"}, func() {
		for i, p := range tp.Pres {
			if p.ThinkNs > 0 {
				simrt.SleepExact(p.ThinkNs)
			}
			now0 := time.Now().UTC()
			s := now0.Truncate(time.Second).Add(2 * time.Second)
			var tr *world.Truth
			if p.ReplayOf >= 0 {
				if p.ReplayOf >= i || truths[p.ReplayOf] == nil {
					res.Verdict, res.Harness = "invalid", "replay_of"
					return
				}
				tr = truths[p.ReplayOf]
				res.Probes["replayed"]++
				if i == 2 && p.ReplayOf == 1 && len(tp.Pres) == 3 && len(truths[0].Defects) == 1 && truths[0].Defects[0] == "t-ctime-old" {
					res.Probes["old-then-fresh-then-replay"]++
				}
			} else {
				var err error
				tr, err = minter.Mint(p.Spec, s, skew, rng)
				if err != nil {
					res.Verdict, res.Harness = "invalid", "mint: "+err.Error()
					return
				}
			}
			truths[i] = tr
			delta := tr.TimeDelta
			if p.ReplayOf >= 0 {
				delta = 0
			}
			simrt.SleepExact(int64(s.Add(time.Duration(delta)).Sub(time.Now())))
			now := time.Now().UTC()
			mv := world.Accept(tr, st, ktm, now, replay)
			if mv.Accept == "accept" && world.SameClientTime(taint, mv.ReplayKey) && !replay[mv.ReplayKey] {
				mv.Accept = "either"
				mv.Reasons = append(mv.Reasons, "either:replay-state-unknown")
			}
			o := outcome{Idx: i, Defects: tr.Defects, Model: mv.Accept, Reasons: mv.Reasons, NowNs: simrt.NowNs(), DeltaNs: delta, Etype: int(tr.SessKey.Etype)}
			if p.ReplayOf >= 0 {
				o.Defects = append(append([]string{}, tr.Defects...), "replayed-bytes")
			}
			var ok bool
			var creds *credentials.Credentials
			var err error
			panicked, frame, msg := engine.Guard(func() {
				var ap messages.APReq
				if e := ap.Unmarshal(tr.Bytes); e != nil {
					err = fmt.Errorf("unmarshal: %v", e)
					return
				}
				ok, creds, err = service.VerifyAPREQ(&ap, settings)
			})
			if panicked {
				ok = false
				o.Panic = frame + ": " + msg
				res.Stats["panics"]++
			}
			o.Accepted = ok
			if err != nil {
				o.Err = err.Error()
				if len(o.Err) > 160 {
					o.Err = o.Err[:160]
				}
			}
			if time.Now().UTC() != now {
				res.Verdict, res.Harness = "harness-error", "clock moved during verification"
				return
			}
			res.Evals++
			// probes
			if delta == 1 {
				res.Probes["bound-plus-1ns"]++
			}
			if delta == -1 {
				res.Probes["bound-minus-1ns"]++
			}
			if len(tr.Defects) >= 2 {
				res.Probes["pair-of-defects"]++
			}
			if mv.Accept == "accept" {
				res.Probes["valid-accept-expected"]++
			}
			if st.KtPrinc != "" {
				res.Probes["override-principal"]++
			}
			if st.RequireAddr {
				res.Probes["address-required"]++
			}
			if tr.HasPAC {
				switch {
				case tr.PACValid:
					res.Probes["pac-valid"]++
				case st.DecodePAC:
					res.Probes["pac-invalid-with-decoding-enabled"]++
				default:
					res.Probes["pac-invalid-with-decoding-disabled"]++
				}
			}
			if mv.Accept == "either" {
				res.Stats["dont_care"]++
			}
			// judge
			dk := strings.Join(o.Defects, "+")
			if dk == "" {
				dk = "valid"
			}
			switch {
			case mv.Accept == "reject" && ok:
				engine.Violate(res, "false-accept|"+strings.Join(nonEither(mv.Reasons), "+"), o)
			case mv.Accept == "accept" && !ok && panicked:
				engine.Violate(res, "no-verdict-panic|"+frame, o)
			case mv.Accept == "accept" && !ok:
				engine.Violate(res, "false-reject|"+dk+"|"+errClass(err), o)
			}
			if ok {
				if creds == nil {
					engine.Violate(res, "wrong-identity|nil-credentials", o)
				} else {
					o.User, o.Domain = creds.UserName(), creds.Domain()
					wantUser := strings.Join(tr.TktCName, "/")
					// a verified PAC is sealed inside the ticket too: the user name may be the effective
					// name the KDC put there (the captured sample PAC names "testuser1")
					userOK := creds.UserName() == wantUser || (tr.HasPAC && tr.PACValid && st.DecodePAC && creds.UserName() == "testuser1")
					if !userOK || strings.Join(creds.CName().NameString, "/") != wantUser {
						engine.Violate(res, "wrong-identity|client-name-not-from-ticket", o)
					}
					if userOK && creds.CName().NameType != tr.TktCNameType {
						// the name-type is part of the name the KDC sealed; the authenticator's is the client's choice
						engine.Violate(res, "wrong-identity|client-name-type-not-from-ticket", o)
					}
					if creds.Domain() != tr.TktCRealm || creds.Realm() != tr.TktCRealm {
						engine.Violate(res, "wrong-identity|realm-not-from-ticket", o)
					}
					if !creds.ValidUntil().Equal(tr.End) {
						engine.Violate(res, "wrong-identity|expiry-not-from-ticket", o)
					}
					if !creds.Authenticated() {
						engine.Violate(res, "wrong-identity|not-marked-authenticated", o)
					}
				}
				replay[mv.ReplayKey] = true
			} else if mv.Accept == "either" || (mv.PassedToReplayCheck && mv.Accept == "reject") {
				taint[mv.ReplayKey] = true
			}
			outs = append(outs, o)
			acc := "R"
			if ok {
				acc = "A"
			}
			classParts = append(classParts, fmt.Sprintf("%s:%s:%d:%s%s", strings.Join(o.Defects, "+"), etFamily(o.Etype), delta, mv.Accept[:1], acc))
			if len(o.Defects) > 0 || st != (world.ServiceSettings{SkewS: 300}) {
				res.Nontrivial = true
			}
			simrt.Logf("present #%d defects=%v delta=%d model=%s %v -> accepted=%v err=%s", i, o.Defects, delta, mv.Accept, mv.Reasons, ok, o.Err)
		}
	})
	simrt.Wait(done)
	if done.Panic != nil {
		res.Verdict, res.Harness = "harness-error", fmt.Sprintf("presenter panicked: %v\n%s", done.Panic, done.Stack)
		return
	}
	if res.Evals == 0 {
		res.Evals = 1
	}
	sort.Strings(classParts)
	// what the adversary did in this run (fault kinds that were actually applied)
	for i, p := range tp.Pres {
		if p.ReplayOf >= 0 {
			res.Faults["replayed-request"]++
			continue
		}
		for _, d := range p.Spec.Defects {
			res.Faults[d.Kind]++
		}
		if p.Spec.PAC != "" && p.Spec.PAC != "valid" {
			res.Faults["pac-"+p.Spec.PAC]++
		}
		if i > 0 && p.ThinkNs > int64(time.Second) {
			res.Faults["clock-advanced-between-presentations"]++
		}
	}
	res.Class = settingsClass(st) + "|" + strings.Join(classParts, ";")
}

// errClass names the refusal: the KRB error code when the service produced one.
func errClass(err error) string {
	if err == nil {
		return "no-error"
	}
	if ke, ok := err.(messages.KRBError); ok {
		return fmt.Sprintf("krb-error-%d", ke.ErrorCode)
	}
	m := err.Error()
	if i := strings.Index(m, "]"); i > 0 && strings.HasPrefix(m, "[") {
		return m[:i+1]
	}
	if i := strings.Index(m, ":"); i > 0 {
		return m[:i]
	}
	return "other"
}

func nonEither(rs []string) []string {
	var o []string
	for _, r := range rs {
		if !strings.HasPrefix(r, "either:") {
			o = append(o, r)
		}
	}
	return o
}
