package c04

import (
	"os"
	"testing"

	"github.com/jcmturner/gokrb5/v8/config"
	"github.com/jcmturner/gokrb5/v8/credentials"
	"github.com/jcmturner/gokrb5/v8/keytab"
)

// TestCorpusIsValid: the hand-built corpus items (other format versions, other value forms) are
// accepted by the real parsers when undamaged - otherwise their damaged variants would only ever
// exercise the first error path.
func TestCorpusIsValid(t *testing.T) {
	if os.Getenv("VERIF_MODE") != "" {
		t.Skip("engine mode")
	}
	kt := keytab.New()
	if err := kt.Unmarshal(keytabV1()); err != nil || len(kt.Entries) != 2 {
		t.Errorf("version-1 keytab: %v, %d entries", err, len(kt.Entries))
	}
	for v := 1; v <= 3; v++ {
		c := new(credentials.CCache)
		if err := c.Unmarshal(ccacheOfVersion(v)); err != nil || len(c.Credentials) != 2 || c.DefaultPrincipal.Realm != "TEST.GOKRB5" {
			t.Errorf("version-%d ccache: %v, %d credentials, realm %q", v, err, len(c.Credentials), c.DefaultPrincipal.Realm)
		}
	}
	if _, err := config.NewFromString(confForms); err != nil {
		t.Errorf("confForms: %v", err)
	}
}
