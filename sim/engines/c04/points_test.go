package c04

import (
	"encoding/base64"
	"encoding/hex"
	"fmt"
	"github.com/jcmturner/gokrb5/v8/asn1tools"
	"github.com/jcmturner/gokrb5/v8/client"
	"github.com/jcmturner/gokrb5/v8/service"
	"io"
	"log"
	"strings"

	"github.com/jcmturner/gokrb5/v8/config"
	"github.com/jcmturner/gokrb5/v8/credentials"
	"github.com/jcmturner/gokrb5/v8/crypto"
	"github.com/jcmturner/gokrb5/v8/gssapi"
	"github.com/jcmturner/gokrb5/v8/kadmin"
	"github.com/jcmturner/gokrb5/v8/keytab"
	"github.com/jcmturner/gokrb5/v8/messages"
	"github.com/jcmturner/gokrb5/v8/pac"
	"github.com/jcmturner/gokrb5/v8/spnego"
	"github.com/jcmturner/gokrb5/v8/test/testdata"
	"github.com/jcmturner/gokrb5/v8/types"

	"verifsim/refkrb/der"
	"verifsim/refkrb/rcrypto"
	"verifsim/refkrb/rk"
)

// A delivery point: valid items that reach a real consumer through a seam (network, disk, peer).
type point struct {
	name    string
	kind    string // der | binary | text
	items   [][]byte
	consume func(b []byte)
}

func hx(s string) []byte {
	b, err := hex.DecodeString(s)
	if err != nil {
		panic("testdata hex: " + err.Error())
	}
	return b
}

func hxs(ss ...string) [][]byte {
	var out [][]byte
	for _, s := range ss {
		out = append(out, hx(s))
	}
	return out
}

var testKey = types.EncryptionKey{KeyType: 18, KeyValue: []byte("0123456789abcdef0123456789abcdef")}
var discard = log.New(io.Discard, "", 0)

// thin adapters: the type's exported Unmarshal (and the accessors an application calls next)
func points() []point {
	ps := []point{
		{"Ticket.Unmarshal", "der", hxs(testdata.MarshaledKRB5ticket), func(b []byte) { var v messages.Ticket; v.Unmarshal(b) }},
		{"Authenticator.Unmarshal", "der", hxs(testdata.MarshaledKRB5authenticator, testdata.MarshaledKRB5authenticatorOptionalsEmpty, testdata.MarshaledKRB5authenticatorOptionalsNULL), func(b []byte) { var v types.Authenticator; v.Unmarshal(b) }},
		{"EncTicketPart.Unmarshal", "der", hxs(testdata.MarshaledKRB5enc_tkt_part, testdata.MarshaledKRB5enc_tkt_partOptionalsNULL), func(b []byte) { var v messages.EncTicketPart; v.Unmarshal(b) }},
		{"EncKDCRepPart.Unmarshal", "der", hxs(testdata.MarshaledKRB5enc_kdc_rep_part, testdata.MarshaledKRB5enc_kdc_rep_partOptionalsNULL), func(b []byte) { var v messages.EncKDCRepPart; v.Unmarshal(b) }},
		{"ASRep.Unmarshal", "der", hxs(testdata.MarshaledKRB5as_rep, testdata.MarshaledKRB5as_repOptionalsNULL), func(b []byte) { var v messages.ASRep; v.Unmarshal(b) }},
		{"TGSRep.Unmarshal", "der", hxs(testdata.MarshaledKRB5tgs_rep, testdata.MarshaledKRB5tgs_repOptionalsNULL), func(b []byte) { var v messages.TGSRep; v.Unmarshal(b) }},
		{"APReq.Unmarshal", "der", hxs(testdata.MarshaledKRB5ap_req), func(b []byte) { var v messages.APReq; v.Unmarshal(b) }},
		{"APRep.Unmarshal", "der", hxs(testdata.MarshaledKRB5ap_rep), func(b []byte) { var v messages.APRep; v.Unmarshal(b) }},
		{"EncAPRepPart.Unmarshal", "der", hxs(testdata.MarshaledKRB5ap_rep_enc_part, testdata.MarshaledKRB5ap_rep_enc_partOptionalsNULL), func(b []byte) { var v messages.EncAPRepPart; v.Unmarshal(b) }},
		{"ASReq.Unmarshal", "der", hxs(testdata.MarshaledKRB5as_req, testdata.MarshaledKRB5as_reqOptionalsNULLexceptsecond_ticket, testdata.MarshaledKRB5as_reqOptionalsNULLexceptserver), func(b []byte) { var v messages.ASReq; v.Unmarshal(b) }},
		{"TGSReq.Unmarshal", "der", hxs(testdata.MarshaledKRB5tgs_req, testdata.MarshaledKRB5tgs_reqOptionalsNULLexceptsecond_ticket, testdata.MarshaledKRB5tgs_reqOptionalsNULLexceptserver), func(b []byte) { var v messages.TGSReq; v.Unmarshal(b) }},
		{"KDCReqBody.Unmarshal", "der", hxs(testdata.MarshaledKRB5kdc_req_body, testdata.MarshaledKRB5kdc_req_bodyOptionalsNULLexceptsecond_ticket, testdata.MarshaledKRB5kdc_req_bodyOptionalsNULLexceptserver), func(b []byte) { var v messages.KDCReqBody; v.Unmarshal(b) }},
		{"KRBSafe.Unmarshal", "der", hxs(testdata.MarshaledKRB5safe, testdata.MarshaledKRB5safeOptionalsNULL), func(b []byte) { var v messages.KRBSafe; v.Unmarshal(b) }},
		{"KRBPriv.Unmarshal", "der", hxs(testdata.MarshaledKRB5priv), func(b []byte) {
			var v messages.KRBPriv
			if v.Unmarshal(b) == nil {
				v.DecryptEncPart(testKey)
			}
		}},
		{"EncKrbPrivPart.Unmarshal", "der", hxs(testdata.MarshaledKRB5enc_priv_part, testdata.MarshaledKRB5enc_priv_partOptionalsNULL), func(b []byte) { var v messages.EncKrbPrivPart; v.Unmarshal(b) }},
		{"KRBCred.Unmarshal", "der", hxs(testdata.MarshaledKRB5cred), func(b []byte) {
			var v messages.KRBCred
			if v.Unmarshal(b) == nil {
				v.DecryptEncPart(testKey)
			}
		}},
		{"EncKrbCredPart.Unmarshal", "der", hxs(testdata.MarshaledKRB5enc_cred_part, testdata.MarshaledKRB5enc_cred_partOptionalsNULL), func(b []byte) { var v messages.EncKrbCredPart; v.Unmarshal(b) }},
		{"KRBError.Unmarshal", "der", hxs(testdata.MarshaledKRB5error, testdata.MarshaledKRB5errorOptionalsNULL), func(b []byte) {
			var v messages.KRBError
			if v.Unmarshal(b) == nil {
				_ = v.Error()
			}
		}},
		{"AuthorizationData.Unmarshal", "der", hxs(testdata.MarshaledKRB5authorization_data, testdata.MarshaledPAC_AuthorizationData_MS, testdata.MarshaledPAC_AuthorizationData_GOKRB5), func(b []byte) { var v types.AuthorizationData; v.Unmarshal(b) }},
		{"PADataSequence.Unmarshal", "der", hxs(testdata.MarshaledKRB5padata_sequence, testdata.MarshaledKRB5padataSequenceEmpty), func(b []byte) {
			var v types.PADataSequence
			if v.Unmarshal(b) == nil {
				for _, pa := range v {
					pa.GetETypeInfo()
					pa.GetETypeInfo2()
				}
			}
		}},
		{"TypedDataSequence.Unmarshal", "der", hxs(testdata.MarshaledKRB5typed_data), func(b []byte) { var v types.TypedDataSequence; v.Unmarshal(b) }},
		{"ETypeInfo.Unmarshal", "der", hxs(testdata.MarshaledKRB5etype_info, testdata.MarshaledKRB5etype_infoOnly1, testdata.MarshaledKRB5etype_infoNoInfo), func(b []byte) { var v types.ETypeInfo; v.Unmarshal(b) }},
		{"ETypeInfo2.Unmarshal", "der", hxs(testdata.MarshaledKRB5etype_info2, testdata.MarshaledKRB5etype_info2Only1), func(b []byte) { var v types.ETypeInfo2; v.Unmarshal(b) }},
		{"PAEncTSEnc.Unmarshal", "der", hxs(testdata.MarshaledKRB5pa_enc_ts, testdata.MarshaledKRB5pa_enc_tsNoUsec), func(b []byte) { var v types.PAEncTSEnc; v.Unmarshal(b) }},
		{"EncryptedData.Unmarshal", "der", hxs(testdata.MarshaledKRB5enc_data, testdata.MarshaledKRB5enc_dataMSBSetkvno, testdata.MarshaledKRB5enc_dataKVNONegOne), func(b []byte) {
			var v types.EncryptedData
			if v.Unmarshal(b) == nil {
				crypto.DecryptEncPart(v, testKey, 2)
			}
		}},
		{"EncryptionKey.Unmarshal", "der", hxs(testdata.MarshaledKRB5keyblock), func(b []byte) { var v types.EncryptionKey; v.Unmarshal(b) }},
		{"ADKDCIssued.Unmarshal", "der", hxs(testdata.MarshaledKRB5ad_kdcissued), func(b []byte) { var v types.ADKDCIssued; v.Unmarshal(b) }},
		// PAC (bytes from inside an authenticated ticket, produced by a Byzantine or buggy KDC)
		{"PACType", "binary", hxs(testdata.MarshaledPAC_AD_WIN2K_PAC), func(b []byte) {
			var v pac.PACType
			if v.Unmarshal(b) == nil {
				v.ProcessPACInfoBuffers(testKey, discard)
			}
		}},
		{"KerbValidationInfo.Unmarshal", "binary", hxs(testdata.MarshaledPAC_Kerb_Validation_Info, testdata.MarshaledPAC_Kerb_Validation_Info_MS, testdata.MarshaledPAC_Kerb_Validation_Info_Trust), func(b []byte) {
			var v pac.KerbValidationInfo
			if v.Unmarshal(b) == nil {
				v.GetGroupMembershipSIDs()
			}
		}},
		{"ClientInfo.Unmarshal", "binary", hxs(testdata.MarshaledPAC_Client_Info), func(b []byte) { var v pac.ClientInfo; v.Unmarshal(b) }},
		{"UPNDNSInfo.Unmarshal", "binary", append(hxs(testdata.MarshaledPAC_UPN_DNS_Info), upnDNSInfoBeyond64K()), func(b []byte) { var v pac.UPNDNSInfo; v.Unmarshal(b) }},
		{"SignatureData.Unmarshal", "binary", hxs(testdata.MarshaledPAC_Server_Signature, testdata.MarshaledPAC_KDC_Signature), func(b []byte) { var v pac.SignatureData; v.Unmarshal(b) }},
		{"ClientClaimsInfo.Unmarshal", "binary", hxs(testdata.MarshaledPAC_ClientClaimsInfoStr, testdata.MarshaledPAC_ClientClaimsInfoInt, testdata.MarshaledPAC_ClientClaimsInfoMulti, testdata.MarshaledPAC_ClientClaimsInfoMultiUint, testdata.MarshaledPAC_ClientClaimsInfoMultiStr, testdata.MarshaledPAC_ClientClaimsInfo_XPRESS_HUFF), func(b []byte) { var v pac.ClientClaimsInfo; v.Unmarshal(b) }},
		{"S4UDelegationInfo.Unmarshal", "binary", hxs(testdata.MarshaledPAC_Kerb_Validation_Info), func(b []byte) { var v pac.S4UDelegationInfo; v.Unmarshal(b) }},
		{"DeviceInfo.Unmarshal", "binary", hxs(testdata.MarshaledPAC_Kerb_Validation_Info), func(b []byte) { var v pac.DeviceInfo; v.Unmarshal(b) }},
		{"DeviceClaimsInfo.Unmarshal", "binary", hxs(testdata.MarshaledPAC_ClientClaimsInfoStr, testdata.MarshaledPAC_ClientClaimsInfoMulti), func(b []byte) { var v pac.DeviceClaimsInfo; v.Unmarshal(b) }},
		// PAC credentials (PAC_CREDENTIAL_INFO: version, etype, data encrypted under the AS reply key) and what is inside
		{"CredentialsInfo.Unmarshal", "binary", [][]byte{pacCredentialsInfo()}, func(b []byte) { var v pac.CredentialsInfo; v.Unmarshal(b, testKey) }},
		{"CredentialData.Unmarshal", "binary", hxs(testdata.MarshaledPAC_Kerb_Validation_Info), func(b []byte) { var v pac.CredentialData; v.Unmarshal(b) }},
		{"SECPKGSupplementalCred.Unmarshal", "binary", hxs(testdata.MarshaledPAC_Kerb_Validation_Info), func(b []byte) { var v pac.SECPKGSupplementalCred; v.Unmarshal(b) }},
		{"NTLMSupplementalCred.Unmarshal", "binary", [][]byte{append([]byte{0, 0, 0, 0, 0xc0, 0, 0, 0}, make([]byte, 32)...), append([]byte{0, 0, 0, 0, 0x80, 0, 0, 0}, make([]byte, 16)...)}, func(b []byte) {
			var v pac.NTLMSupplementalCred
			v.Unmarshal(b)
		}},
		// single elements of the sequences above, and what a KDC puts into padata
		{"Checksum.Unmarshal", "der", [][]byte{rk.Checksum{Type: 16, Sum: []byte("0123456789ab")}.Enc()}, func(b []byte) { var v types.Checksum; v.Unmarshal(b) }},
		{"PAData.Unmarshal", "der", [][]byte{firstElement(hx(testdata.MarshaledKRB5padata_sequence))}, func(b []byte) {
			var v types.PAData
			if v.Unmarshal(b) == nil {
				v.GetETypeInfo()
				v.GetETypeInfo2()
			}
		}},
		{"PAEncTimestamp.Unmarshal", "der", hxs(testdata.MarshaledKRB5enc_data), func(b []byte) { var v types.PAEncTimestamp; v.Unmarshal(b) }},
		{"PAReqEncPARep.Unmarshal", "der", [][]byte{rk.Checksum{Type: 16, Sum: []byte("0123456789ab")}.Enc()}, func(b []byte) { var v types.PAReqEncPARep; v.Unmarshal(b) }},
		{"AuthorizationDataEntry.Unmarshal", "der", [][]byte{firstElement(hx(testdata.MarshaledKRB5authorization_data))}, func(b []byte) { var v types.AuthorizationDataEntry; v.Unmarshal(b) }},
		{"ETypeInfoEntry.Unmarshal", "der", [][]byte{firstElement(hx(testdata.MarshaledKRB5etype_info))}, func(b []byte) { var v types.ETypeInfoEntry; v.Unmarshal(b) }},
		{"ETypeInfo2Entry.Unmarshal", "der", [][]byte{firstElement(hx(testdata.MarshaledKRB5etype_info2))}, func(b []byte) { var v types.ETypeInfo2Entry; v.Unmarshal(b) }},
		{"ParseSPNString", "text", [][]byte{[]byte("HTTP/host.test.gokrb5@TEST.GOKRB5"), []byte("krbtgt/A.B/C.D@E.F")}, func(b []byte) {
			pn, _ := types.ParseSPNString(string(b))
			pn.PrincipalNameString()
			pn.GetSalt("R")
		}},
		// kpasswd
		{"kadmin.Reply", "binary", hxs(testdata.MarshaledKpasswd_Rep), func(b []byte) {
			var v kadmin.Reply
			if v.Unmarshal(b) == nil {
				v.Decrypt(testKey)
			}
		}},
		// files
		{"keytab.Unmarshal", "binary", append(hxs(testdata.KEYTAB_TESTUSER1_TEST_GOKRB5, testdata.HTTP_KEYTAB, testdata.KEYTAB_SYSHTTP_RESDOM_GOKRB5), keytabV1()), func(b []byte) {
			kt := keytab.New()
			if kt.Unmarshal(b) == nil {
				kt.GetEncryptionKey(types.NewPrincipalName(1, "testuser1"), "TEST.GOKRB5", 0, 18)
				_ = kt.String()
				kt.JSON()
				kt.Marshal()
			}
		}},
		{"CCache.Unmarshal", "binary", append(hxs(testdata.CCACHE_TEST), ccacheOfVersion(3), ccacheOfVersion(2), ccacheOfVersion(1)), func(b []byte) {
			c := new(credentials.CCache)
			if c.Unmarshal(b) == nil {
				c.GetClientCredentials()
				c.GetClientPrincipalName()
				c.GetClientRealm()
				c.GetEntries()
				c.Contains(types.NewPrincipalName(2, "krbtgt/TEST.GOKRB5"))
				c.GetEntry(types.NewPrincipalName(1, "HTTP/host.test.gokrb5"))
			}
		}},
		{"config.NewFromString", "text", [][]byte{[]byte(testdata.KRB5_CONF), []byte(testdata.KRB5_CONF_AD), []byte(confExtra), []byte(confForms)}, func(b []byte) {
			c, err := config.NewFromString(string(b))
			if err == nil && c != nil {
				c.ResolveRealm("host.test.gokrb5")
				c.ResolveRealm("a.b.example.com")
				c.GetKDCs(c.LibDefaults.DefaultRealm, false)
				c.GetKDCs("TEST.GOKRB5", true)
				c.GetKpasswdServers("TEST.GOKRB5", true)
				c.JSON()
			}
		}},
		// HTTP Basic credentials handed to the Kerberos password authenticator (header value from a client)
		{"KRB5BasicAuthenticator", "text", [][]byte{[]byte(base64.StdEncoding.EncodeToString([]byte("testuser1@TEST.GOKRB5:passwordvalue"))),
			[]byte(base64.StdEncoding.EncodeToString([]byte("TEST.GOKRB5\\testuser1:pass:word"))), []byte(base64.StdEncoding.EncodeToString([]byte("testuser1:p")))}, func(b []byte) {
			// no KDC is configured for any realm: a header that parses ends in a login error at once
			a := service.NewKRB5BasicAuthenticator(string(b), config.New(), service.NewSettings(keytab.New()), client.NewSettings())
			a.Authenticate()
			a.Mechanism()
		}},
		{"config.NewFromReader", "text", [][]byte{[]byte(testdata.KRB5_CONF)}, func(b []byte) {
			// a reader that hands out the file in short reads and then fails mid-stream
			config.NewFromReader(&shortReader{b: b, n: 7})
		}},
	}
	// SPNEGO / GSS tokens as they travel between peers (reference-built)
	apreq := hx(testdata.MarshaledKRB5ap_req)
	mech := rk.KRB5Token(rk.TokAPReq, apreq)
	mechErr := rk.KRB5Token(rk.TokKRBError, hx(testdata.MarshaledKRB5error))
	mechRep := rk.KRB5Token(rk.TokAPRep, hx(testdata.MarshaledKRB5ap_rep))
	ps = append(ps,
		point{"SPNEGOToken.Unmarshal", "der", [][]byte{rk.NegTokenInit([][]int{rk.OIDKRB5}, mech), rk.NegTokenInit([][]int{rk.OIDMSKRB5, rk.OIDKRB5}, mechErr), rk.NegTokenResp(1, rk.OIDKRB5, mechRep), rk.NegTokenResp(0, nil, nil), rk.NegTokenInit(nil, nil)}, func(b []byte) {
			var v spnego.SPNEGOToken
			if v.Unmarshal(b) == nil {
				v.Marshal()
			}
		}},
		point{"KRB5Token.Unmarshal", "der", [][]byte{mech, mechErr, mechRep}, func(b []byte) {
			var v spnego.KRB5Token
			if v.Unmarshal(b) == nil {
				v.IsAPReq()
				v.IsKRBError()
				if !v.IsAPReq() {
					v.Verify()
				}
			}
		}},
		point{"NegTokenResp.Unmarshal", "der", [][]byte{rk.NegTokenResp(1, rk.OIDKRB5, mechRep), rk.NegTokenResp(2, nil, nil)}, func(b []byte) {
			var v spnego.NegTokenResp
			if v.Unmarshal(b) == nil {
				v.State()
				v.Verify()
			}
		}},
	)
	// GSS-API per-message tokens (what the other end of an established context sends)
	if wt, err := gssapi.NewInitiatorWrapToken([]byte("application data to protect"), testKey); err == nil {
		if wb, err := wt.Marshal(); err == nil {
			// the same token as other implementations send it: with a right rotation count (Windows uses
			// 28), with extra count and rotation, as the acceptor's reply
			rot := append([]byte{}, wb...)
			rot[6], rot[7] = 0, 28
			both := append([]byte{}, wb...)
			both[4], both[5], both[6], both[7] = 0, 12, 0, 12
			acc := append([]byte{}, wb...)
			acc[2] |= 1
			// header of a sealed (confidential) token as Windows sends it: flag Sealed, EC 0, RRC 28
			sealed := append([]byte{}, wb...)
			sealed[2] |= 2
			sealed[4], sealed[5], sealed[6], sealed[7] = 0, 0, 0, 28
			ps = append(ps, point{"WrapToken", "binary", [][]byte{wb, rot, both, acc, sealed}, func(b []byte) {
				var v gssapi.WrapToken
				if v.Unmarshal(b, false) == nil {
					v.Verify(testKey, 24)
				}
				var w gssapi.WrapToken
				w.Unmarshal(b, true)
			}})
		}
	}
	if mt, err := gssapi.NewInitiatorMICToken([]byte("application data to sign"), testKey); err == nil {
		if mb, err := mt.Marshal(); err == nil {
			ps = append(ps, point{"MICToken", "binary", [][]byte{mb}, func(b []byte) {
				var v gssapi.MICToken
				if v.Unmarshal(b, false) == nil {
					v.Payload = []byte("application data to sign")
					v.Verify(testKey, 23)
				}
			}})
		}
	}
	// the exported ciphertext verifiers and decryptors of every encryption type, handed a ciphertext
	// directly (applications with their own framing call them): a valid ciphertext per etype
	for _, id := range []int32{17, 18, 19, 20, 16, 23} {
		et, err := crypto.GetEtype(id)
		if err != nil {
			continue
		}
		key := make([]byte, et.GetKeyByteSize())
		for i := range key {
			key[i] = byte(i*7 + int(id))
		}
		_, ct, err := et.EncryptMessage(key, []byte("sixteen byte msg plus a few more"), 3)
		if err != nil {
			continue
		}
		et2, key2 := et, key
		ps = append(ps, point{fmt.Sprintf("EType(%d).VerifyIntegrity+DecryptMessage", id), "binary", [][]byte{ct}, func(b []byte) {
			et2.VerifyIntegrity(key2, b, b, 3)
			et2.DecryptMessage(key2, b, 3)
			et2.DecryptData(key2, b)
			et2.VerifyChecksum(key2, []byte("data"), b, 3)
		}})
	}
	// the exported ASN.1 length helpers, on the start of a DER element
	ps = append(ps, point{"asn1tools.GetLengthFromASN", "der", hxs(testdata.MarshaledKRB5ticket), func(b []byte) {
		asn1tools.GetLengthFromASN(b)
		asn1tools.GetNumberBytesInLengthHeader(b)
	}})
	return ps
}

type shortReader struct {
	b   []byte
	n   int
	pos int
}

func (r *shortReader) Read(p []byte) (int, error) {
	if r.pos >= len(r.b) {
		return 0, io.ErrUnexpectedEOF // the stream breaks where the damaged file ends
	}
	k := r.n
	if k > len(p) {
		k = len(p)
	}
	if r.pos+k > len(r.b) {
		k = len(r.b) - r.pos
	}
	copy(p, r.b[r.pos:r.pos+k])
	r.pos += k
	return k, nil
}

var confExtra = strings.Join([]string{
	"# comment", "[libdefaults]", " default_realm = EXAMPLE.COM", " ticket_lifetime = 1d 2h", " renew_lifetime = 7d", " default_tkt_enctypes = aes256-cts rc4-hmac",
	" forwardable = yes", " udp_preference_limit = 1", "", "[realms]", " EXAMPLE.COM = {", "  kdc = kdc1.example.com:88", "  kdc = kdc2.example.com", "  admin_server = kdc1.example.com:749",
	"  auth_to_local_names = {", "   fred = freddy", "  }", "  v4_instance_convert = {", "   mail = mailhost", "  }", " }", " OTHER.ORG = {", "  kdc = 10.0.0.1*", "  kdc = ignored", " }", "",
	"[domain_realm]", " .example.com = EXAMPLE.COM", " example.com = EXAMPLE.COM", " .sub.example.com = OTHER.ORG", "", "[appdefaults]", " x = {", "  y = z", " }", ""}, "\n")

// confForms: the value forms krb5.conf documents for durations, booleans and lists, one per line.
var confForms = strings.Join([]string{
	"[libdefaults]", " default_realm = FORMS.TEST", " ticket_lifetime = 1:2", " renew_lifetime = 12:30:15", " clockskew = 300", " kdc_timesync = 1",
	" default_tgs_enctypes = aes256-cts-hmac-sha1-96, aes128-cts-hmac-sha1-96 des3-cbc-sha1", " permitted_enctypes = 18 17 23", " dns_lookup_kdc = false", " noaddresses = 0",
	" proxiable = y", " rdns = no", " verify_ap_req_nofail = t", " extra_addresses = 10.0.0.1, 10.0.0.2", " preferred_preauth_types = 17,16,15,14", " safe_checksum_type = 8",
	" kdc_default_options = 0x00000010", " realm_try_domains = 2", " k5login_authoritative = true", " ccache_type = 4", "", "[realms]", " FORMS.TEST = {", "  kdc = [2001:db8::1]:88", "  kdc = kdc.forms.test:88",
	"  kpasswd_server = kdc.forms.test:464", "  master_kdc = kdc.forms.test", "  default_domain = forms.test", " }", "", "[libdefaults]", " ticket_lifetime = 2h30m", " renew_lifetime = 1d2h3m4s", " clockskew = 0h5m", ""}, "\n")

// keytabV1 renders a version-1 keytab (native byte order, component count includes the realm, no
// name type, 8-bit key version only) with two entries.
func keytabV1() []byte {
	out := []byte{5, 1}
	le16 := func(b []byte, v uint16) []byte { return append(b, byte(v), byte(v>>8)) }
	le32 := func(b []byte, v uint32) []byte { return append(b, byte(v), byte(v>>8), byte(v>>16), byte(v>>24)) }
	cs := func(b []byte, x string) []byte { return append(le16(b, uint16(len(x))), x...) }
	for _, comps := range [][]string{{"testuser1"}, {"HTTP", "host.test.gokrb5"}} {
		var e []byte
		e = le16(e, uint16(len(comps)+1))
		e = cs(e, "TEST.GOKRB5")
		for _, c := range comps {
			e = cs(e, c)
		}
		e = le32(e, 1500000000)
		e = append(e, 3)
		e = le16(e, 18)
		e = cs(e, "0123456789abcdef0123456789abcdef")
		out = append(le32(out, uint32(len(e))), e...)
	}
	return out
}

// ccacheOfVersion renders a small credential cache in format version 1, 2 or 3 (1 and 2: native
// byte order; 1: no name type and the component count includes the realm; 3: key type twice).
func ccacheOfVersion(v int) []byte {
	out := []byte{5, byte(v)}
	big := v >= 3
	u16 := func(b []byte, x uint16) []byte {
		if big {
			return append(b, byte(x>>8), byte(x))
		}
		return append(b, byte(x), byte(x>>8))
	}
	u32 := func(b []byte, x uint32) []byte {
		if big {
			return append(b, byte(x>>24), byte(x>>16), byte(x>>8), byte(x))
		}
		return append(b, byte(x), byte(x>>8), byte(x>>16), byte(x>>24))
	}
	data := func(b []byte, d []byte) []byte { return append(u32(b, uint32(len(d))), d...) }
	princ := func(b []byte, realm string, comps ...string) []byte {
		if v != 1 {
			b = u32(b, 1)
		}
		n := len(comps)
		if v == 1 {
			n++
		}
		b = u32(b, uint32(n))
		b = data(b, []byte(realm))
		for _, c := range comps {
			b = data(b, []byte(c))
		}
		return b
	}
	out = princ(out, "TEST.GOKRB5", "testuser1")
	for _, srv := range [][]string{{"krbtgt", "TEST.GOKRB5"}, {"HTTP", "host.test.gokrb5"}} {
		out = princ(out, "TEST.GOKRB5", "testuser1")
		out = princ(out, "TEST.GOKRB5", srv...)
		out = u16(out, 18)
		if v == 3 {
			out = u16(out, 18)
		}
		out = data(out, []byte("0123456789abcdef0123456789abcdef"))
		for _, t := range []uint32{1500000000, 1500000000, 1500036000, 1500604800} {
			out = u32(out, t)
		}
		out = append(out, 0)
		out = append(out, 0x40, 0xe1, 0, 0)
		out = u32(out, 1)
		out = u16(out, 2)
		out = data(out, []byte{10, 80, 88, 88})
		out = u32(out, 1)
		out = u16(out, 1)
		out = data(out, []byte{0x30, 0x00})
		out = data(out, hx(testdata.MarshaledKRB5ticket))
		out = data(out, nil)
	}
	return out
}

// firstElement returns the first element of a DER SEQUENCE OF.
func firstElement(seq []byte) []byte {
	n, _, err := der.Parse(seq)
	if err != nil {
		panic("testdata: " + err.Error())
	}
	k, _, err := der.Parse(n.Content)
	if err != nil {
		panic("testdata: " + err.Error())
	}
	return k.Raw
}

// pacCredentialsInfo builds a PAC_CREDENTIAL_INFO buffer: version 0, etype 18, and a blob sealed
// under testKey with key usage 16 (the plaintext is NDR-framed data of another structure: what is
// exercised undamaged is the path header - decryption - NDR decoder).
func pacCredentialsInfo() []byte {
	ct, err := rcrypto.Encrypt(18, testKey.KeyValue, 16, hx(testdata.MarshaledPAC_Kerb_Validation_Info), []byte("0123456789abcdef"))
	if err != nil {
		panic("pacCredentialsInfo: " + err.Error())
	}
	return append([]byte{0, 0, 0, 0, 18, 0, 0, 0}, ct...)
}

// upnDNSInfoBeyond64K is a UPN_DNS_INFO buffer of 66 KiB whose UPN sits just below offset 65536
// (offset + length do not fit 16 bits) and whose DNS name follows the header: valid, and large
// enough for 16-bit arithmetic on the offsets to go wrong.
func upnDNSInfoBeyond64K() []byte {
	b := make([]byte, 66*1024)
	le := func(off int, v uint16) { b[off], b[off+1] = byte(v), byte(v>>8) }
	le(0, 0x20)   // UPN length
	le(2, 0xfff0) // UPN offset
	le(4, 0x10)   // DNS domain name length
	le(6, 0x10)   // DNS domain name offset
	for i, c := range "test.gok" {
		le(0x10+2*i, uint16(c))
	}
	for i, c := range "user@test.gokrb5" {
		le(0xfff0+2*i, uint16(c))
	}
	return b
}
