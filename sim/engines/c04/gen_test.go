package c04

import (
	"encoding/json"
	"fmt"

	"verifsim/core"
	"verifsim/engine"
)

type caseT struct {
	point string
	item  int
	mode  string
	from  int
	count int
}

// enumerate lists the systematic cases: for every item of every delivery point all prefixes, all
// substitutions over the structure-aware alphabet and all length/count-field corruptions, cut into
// chunks; followed by the flow cases.
func enumerate(tier string) []caseT {
	var out []caseT
	ps := points()
	for i := range ps {
		p := &ps[i]
		for it, item := range p.items {
			for _, mode := range []string{"prefix", "subst", "field", "shape", "del"} {
				sp := spaceOf(p, item, mode)
				if sp == 0 {
					continue
				}
				if tier != "thorough" && mode != "prefix" && sp > chunk {
					// quick: all prefixes, and for the larger spaces one sampled chunk per item and mode
					out = append(out, caseT{p.name, it, mode, -1, chunk / 2})
					continue
				}
				for f := 0; f < sp; f += chunk {
					c := chunk
					if f+c > sp {
						c = sp - f
					}
					out = append(out, caseT{p.name, it, mode, f, c})
				}
			}
		}
	}
	out = append(out, flowCases(tier)...)
	return out
}

func meta() core.Meta {
	q, t := len(enumerate("quick")), len(enumerate("thorough"))
	comps := map[string]string{
		"every exported Unmarshal of messages/, types/, spnego/, gssapi/, pac/, kadmin/, keytab, credentials.CCache, config.NewFromString/NewFromReader and the accessors applications call next":                         "real (thin adapters deliver the damaged bytes)",
		"client AS/TGS exchange (sendUDP/sendTCP framing, checkForKRBError, reply decoders, ASRep.Verify/DecryptEncPart, GetKeyFromPassword on PA-data, preAuthEType on e-data, TGSRep handling), kpasswd reply handling": "real, fed by a Byzantine reference KDC and a damaging network (flow cases)",
		"service.VerifyAPREQ / SPNEGO wrapper incl. ticket and authenticator decryption, EncTicketPart/Authenticator/AuthorizationData decoders, PAC processing":                                                          "real, fed by a Byzantine peer holding valid keys (flow cases)",
		"valid corpus": "MIT reference encodings and captured samples shipped in v8/test/testdata, keytab format versions 1 and 2, credential cache format versions 1-4, krb5.conf files with every documented value form, GSS wrap tokens with and without rotation, reference-built SPNEGO tokens, gokrb5-built GSS tokens, live exchanges with refkdc",
	}
	return core.Meta{
		Engine: "c04", Property: "C04", Level: "fault_enumeration",
		Rule:       "evaluation = one delivery: a valid item reaches a real consumer after exactly one fault of the seam: truncation at every offset (all prefixes, always complete), substitution of one byte over a structure-aware alphabet of 10 values per position, corruption of every DER length octet (10 values) resp. every 32-bit and 64-bit window of binary formats, loss of one byte at every offset, re-encoding of a DER item with one element of its TLV tree (nested encodings included) emptied / one byte shorter / one or four bytes longer / given a leading zero / duplicated / removed and all enclosing lengths recomputed (structurally valid, unusual sizes and multiplicities), and for the flows Byzantine-peer damage before sealing, emptied sequences, lying TCP length prefixes, stalled peers; quick samples the substitution and field spaces of large items, thorough enumerates them; seeded cases (quick 64, thorough 6000 batches of 128/256 deliveries) carry two or three of these faults at once, drawn from the run seed; distinct = distinct (delivery point, item, mode, chunk); non-trivial = every case (each contains damaged deliveries)",
		SweepQuick: q, SweepThorough: t,
		SeededQuick: 64, SeededThorough: 6000,
		WorkloadProbes: []string{"deliveries-der", "deliveries-binary", "deliveries-text"},
		Components:     comps,
		Assumptions: []string{
			"the coverage-guided fuzzing clause of the property's quantifier is another technique and is not attempted",
			fmt.Sprintf("allocation bound: %d x bytes delivered + %d MiB per call, measured with runtime/metrics (one running task, so attribution is exact)", allocC, allocK>>20),
			"termination: a call that makes no progress for 30s of wall clock is a hang (watchdog outside the simulated clock); calls may use at most 10 simulated minutes",
		},
		Exhaustive:    true,
		ChildTimeoutS: 180,
	}
}

func gen(caseID, tier string) (json.RawMessage, error) {
	kind, n, err := engine.ParseCase(caseID)
	if err != nil {
		return nil, err
	}
	if kind == "seed" {
		// seeded cases: batches of deliveries carrying two or three faults each, at a point and item
		// drawn from the seed
		r := core.NewRng(n).Derive("c04seeded")
		ps := points()
		p := &ps[r.Intn(len(ps))]
		for len(p.items) == 0 {
			p = &ps[r.Intn(len(ps))]
		}
		cnt := 128
		if tier == "thorough" {
			cnt = 256
		}
		return core.MustJSON(Tape{Engine: "c04", RunSeed: n >> 1, Point: p.name, Item: r.Intn(len(p.items)), Mode: "multi", From: 0, Count: cnt}), nil
	}
	if kind != "sweep" {
		return nil, fmt.Errorf("c04: unknown case kind")
	}
	cs := enumerate(tier)
	if int(n) >= len(cs) {
		return nil, fmt.Errorf("sweep index out of range")
	}
	c := cs[n]
	seed := core.NewRng(uint64(envSeed())).Derive(fmt.Sprint("c04/", n)).U64() >> 1
	tp := Tape{Engine: "c04", RunSeed: seed, Point: c.point, Item: c.item, Mode: c.mode, From: c.from, Count: c.count}
	if c.from < 0 {
		tp.From, tp.Sample = 0, true
	}
	return core.MustJSON(tp), nil
}
