// Package c04 is the engine for property C04: no input makes a decoder or verifier panic, hang or
// allocate without bound.  Bytes reach gokrb5 from a peer through the simulated network, from a
// file through the simulated disk, or from inside an authenticated envelope produced by a
// Byzantine peer; the fault layer damages one delivery (truncation at every offset, byte
// substitution, length/count-field corruption, emptied sequences, lying length prefixes, stalled
// peers) and the real consumer must return.
package c04

import (
	"encoding/json"
	"fmt"
	"os"
	"runtime"
	"runtime/metrics"
	"strings"
	"sync/atomic"
	"syscall"
	"testing"
	"time"

	"verifsim/core"
	"verifsim/engine"
	"verifsim/refkrb/der"
	"verifsim/shim/simsync"
	"verifsim/simrt"
)

type Tape struct {
	Engine  string `json:"engine"`
	RunSeed uint64 `json:"run_seed"`
	Point   string `json:"point"`
	Item    int    `json:"item"`
	Mode    string `json:"mode"` // prefix | subst | field | shape | del | multi | flow modes (see flows_test.go)
	From    int    `json:"from"`
	Count   int    `json:"count"`
	Sample  bool   `json:"sample,omitempty"` // draw Count deliveries at random from the mode's space instead of a contiguous range
	Arg     string `json:"arg,omitempty"`
	Skip    int    `json:"skip,omitempty"` // deliveries at the start of the batch that are not delivered again (resume after a crash)
}

type eng struct{}

func (eng) Meta() core.Meta                             { return meta() }
func (eng) Gen(c, tier string) (json.RawMessage, error) { return gen(c, tier) }
func (eng) Run(tape json.RawMessage, res *core.Result)  { run(tape, res) }
func TestSim(t *testing.T) {
	if os.Getenv("VERIF_MODE") == "run" {
		// a consumer that believes a lying count may ask for tens of gigabytes: let that fail at once
		// (fatal "out of memory", attributed to the delivery through the mark file) instead of
		// filling the sandbox's memory
		lim := syscall.Rlimit{Cur: 6 << 30, Max: 6 << 30}
		syscall.Setrlimit(syscall.RLIMIT_AS, &lim)
	}
	startWatchdog()
	engine.Main(t, eng{})
}

const chunk = 4096

// structure-aware substitution alphabets
func alphabet(kind string, old byte) []byte {
	if kind == "text" {
		return []byte{'{', '}', '[', ']', '=', '#', '\n', ' ', '*', 0, ':', '0', 'x', ';'}
	}
	return []byte{0x00, 0xff, 0x7f, 0x80, old + 1, old - 1, 0x30, 0x81, 0x84, old ^ 0x20}
}

// fieldSites returns the offsets of length and count fields: DER length octets for der items,
// every 2- and 4-byte aligned window for binary formats (approximated by every offset).
func fieldSites(kind string, b []byte) []int {
	var out []int
	switch kind {
	case "der":
		var walk func(buf []byte, base int)
		walk = func(buf []byte, base int) {
			for len(buf) > 0 {
				n, rest, err := der.Parse(buf)
				if err != nil {
					return
				}
				out = append(out, base+1) // first length octet
				hdr := len(n.Raw) - len(n.Content)
				for i := 2; i < hdr; i++ {
					out = append(out, base+i)
				}
				if n.Constructed() {
					walk(n.Content, base+hdr)
				} else if n.Tag == der.TagOctetString && len(n.Content) > 2 && (n.Content[0] == 0x30 || n.Content[0]&0xe0 == 0x60 || n.Content[0]&0xe0 == 0xa0) {
					walk(n.Content, base+hdr) // nested encodings (padata values, ad-data, mech tokens)
				}
				base += len(n.Raw)
				buf = rest
			}
		}
		walk(b, 0)
	default:
		for i := range b {
			out = append(out, i)
		}
	}
	return out
}

// ---- mode "shape": structurally valid re-encodings.  The item is parsed into its TLV tree (nested
// encodings inside OCTET STRINGs included), one element is emptied, shortened, lengthened,
// duplicated or removed, and every enclosing length is re-encoded, so that the consumer meets a
// well-formed message whose one element has a size or multiplicity it may not expect (empty
// sequences where an element is indexed, bit strings longer or shorter than 32 bits, ...).
type tnode struct {
	tag     byte
	content []byte   // primitive elements
	kids    []*tnode // constructed elements and nested encodings
}

func parseTree(b []byte, depth int) ([]*tnode, bool) {
	var out []*tnode
	for len(b) > 0 {
		n, rest, err := der.Parse(b)
		if err != nil {
			return nil, false
		}
		t := &tnode{tag: n.Tag, content: n.Content}
		nestedOK := n.Tag == der.TagOctetString && len(n.Content) > 2 && (n.Content[0] == 0x30 || n.Content[0]&0xe0 == 0x60 || n.Content[0]&0xe0 == 0xa0)
		if (n.Constructed() || nestedOK) && depth < 24 {
			if ks, ok := parseTree(n.Content, depth+1); ok {
				t.kids = ks
				if len(ks) == 0 {
					t.kids = []*tnode{}
				}
			} else if n.Constructed() && !nestedOK {
				t.kids = nil // keep as opaque content
			}
		}
		out = append(out, t)
		b = rest
	}
	return out, true
}

func flatten(ns []*tnode, out *[]*tnode) {
	for _, n := range ns {
		*out = append(*out, n)
		if n.kids != nil {
			flatten(n.kids, out)
		}
	}
}

var shapeNames = []string{"emptied", "one byte shorter", "one byte longer", "four bytes longer", "leading zero byte added", "duplicated", "removed", "cut to its first byte", "cut to its first two bytes"}

func encodeTree(ns []*tnode, target *tnode, variant int) []byte {
	var out []byte
	for _, n := range ns {
		var body []byte
		if n.kids != nil {
			body = encodeTree(n.kids, target, variant)
		} else {
			body = n.content
		}
		if n != target {
			out = append(out, der.TLV(n.tag, body)...)
			continue
		}
		switch variant {
		case 0:
			out = append(out, der.TLV(n.tag, nil)...)
		case 1:
			if len(body) > 0 {
				body = body[:len(body)-1]
			}
			out = append(out, der.TLV(n.tag, body)...)
		case 2:
			out = append(out, der.TLV(n.tag, append(append([]byte{}, body...), 0x00))...)
		case 3:
			out = append(out, der.TLV(n.tag, append(append([]byte{}, body...), 0xff, 0xff, 0xff, 0xff))...)
		case 4:
			out = append(out, der.TLV(n.tag, append([]byte{0x00}, body...))...)
		case 5:
			e := der.TLV(n.tag, body)
			out = append(append(out, e...), e...)
		case 6:
		case 7, 8:
			if k := variant - 6; len(body) > k {
				body = body[:k]
			}
			out = append(out, der.TLV(n.tag, body)...)
		}
	}
	return out
}

func shapeNodes(item []byte) ([]*tnode, []*tnode) {
	roots, ok := parseTree(item, 0)
	if !ok {
		return nil, nil
	}
	var all []*tnode
	flatten(roots, &all)
	return roots, all
}

var fieldVals = []byte{0x00, 0x01, 0x7f, 0x80, 0x81, 0x82, 0x83, 0x84, 0x88, 0xff}

// space size of a mode for an item
func spaceOf(p *point, item []byte, mode string) int {
	switch mode {
	case "prefix":
		return len(item) + 1
	case "subst":
		return len(item) * len(alphabet(p.kind, 0))
	case "field":
		n := len(fieldSites(p.kind, item)) * len(fieldVals)
		if p.kind != "der" {
			n = len(item) * 6 // 32-bit field set to 0, 1, max; 64-bit field set to -1, -8, 2^63
		}
		return n
	case "del":
		return len(item) // one byte lost at each position
	case "shape":
		if p.kind != "der" {
			return 0
		}
		_, all := shapeNodes(item)
		return len(all) * len(shapeNames)
	case "multi":
		return 1 << 30
	}
	return 0
}

// floodPanic is the value with which a simulated peer unwinds a consumer that never stops asking.
const floodPanic = "verifsim: request flood"

// multiSeed is the run seed of the tape being executed (mode multi derives its faults from it).
var multiSeed uint64

// damage produces delivery d of the mode; ok=false when d is outside the space.
func damage(p *point, item []byte, mode string, d int) (out []byte, desc string, ok bool) {
	switch mode {
	case "prefix":
		if d > len(item) {
			return nil, "", false
		}
		return item[:d], fmt.Sprintf("prefix %d of %d", d, len(item)), true
	case "subst":
		a := alphabet(p.kind, 0)
		pos, vi := d/len(a), d%len(a)
		if pos >= len(item) {
			return nil, "", false
		}
		v := alphabet(p.kind, item[pos])[vi]
		out = append([]byte{}, item...)
		out[pos] = v
		return out, fmt.Sprintf("byte %d: %#02x -> %#02x", pos, item[pos], v), true
	case "field":
		out = append([]byte{}, item...)
		if p.kind == "der" {
			sites := fieldSites(p.kind, item)
			si, vi := d/len(fieldVals), d%len(fieldVals)
			if si >= len(sites) {
				return nil, "", false
			}
			out[sites[si]] = fieldVals[vi]
			return out, fmt.Sprintf("length octet at %d -> %#02x", sites[si], fieldVals[vi]), true
		}
		pos, k := d/6, d%6
		if pos >= len(item) {
			return nil, "", false
		}
		if k >= 3 {
			// 64-bit little-endian field (PAC offsets, NDR sizes): -1, -8 (wraps when a size is added), 2^63
			v := [][8]byte{{0xff, 0xff, 0xff, 0xff, 0xff, 0xff, 0xff, 0xff}, {0xf8, 0xff, 0xff, 0xff, 0xff, 0xff, 0xff, 0xff}, {0, 0, 0, 0, 0, 0, 0, 0x80}}[k-3]
			for i := 0; i < 8 && pos+i < len(out); i++ {
				out[pos+i] = v[i]
			}
			return out, fmt.Sprintf("64-bit field at %d -> %s", pos, []string{"-1", "-8", "2^63"}[k-3]), true
		}
		for i := 0; i < 4 && pos+i < len(out); i++ {
			switch k {
			case 0:
				out[pos+i] = 0
			case 1:
				out[pos+i] = 0
				if i == 3 {
					out[pos+i] = 1
				}
			default:
				out[pos+i] = 0xff
				if i == 0 {
					out[pos+i] = 0x7f
				}
			}
		}
		return out, fmt.Sprintf("32-bit field at %d -> %s", pos, []string{"0", "1", "max"}[k]), true
	case "del":
		if d >= len(item) {
			return nil, "", false
		}
		out = append(append([]byte{}, item[:d]...), item[d+1:]...)
		return out, fmt.Sprintf("byte %d (%#02x) lost", d, item[d]), true
	case "multi":
		// two or three faults of the single-fault modes, one after the other (each drawn over the space
		// of the bytes the previous one left), all derived from the run seed and the delivery number
		rng := core.NewRng(multiSeed).Derive(fmt.Sprint("c04multi/", d))
		k := 2 + rng.Intn(2)
		out = item
		var descs []string
		for i := 0; i < k; i++ {
			m := []string{"subst", "field", "shape", "subst", "field", "del"}[rng.Intn(6)]
			if i == k-1 && rng.Chance(1, 4) {
				m = "prefix"
			}
			sp := spaceOf(p, out, m)
			if sp == 0 {
				continue
			}
			b, ds, ok := damage(p, out, m, rng.Intn(sp))
			if !ok {
				continue
			}
			out, descs = b, append(descs, m+": "+ds)
		}
		return out, strings.Join(descs, "; then "), true
	case "shape":
		roots, all := shapeNodes(item)
		ni, v := d/len(shapeNames), d%len(shapeNames)
		if p.kind != "der" || ni >= len(all) {
			return nil, "", false
		}
		return encodeTree(roots, all[ni], v), fmt.Sprintf("element %d (tag %#02x, %d bytes) %s, enclosing lengths re-encoded", ni, all[ni].tag, len(all[ni].content), shapeNames[v]), true
	}
	return nil, "", false
}

// ---- wall-clock watchdog (outside the bubble: real timers)
var curDelivery atomic.Value // string
var curTape atomic.Value     // []byte: the one-delivery tape of the delivery in progress
var curSeq atomic.Int64      // incremented at the start of every delivery

var markF *os.File

// mark records the delivery in progress in the file the orchestrator named, so that a death of
// this process (fatal runtime error) can be attributed to it.
// batchPos is the position of the delivery in progress within the tape's batch (-1: not in a batch).
var batchPos = -1

func mark(point, what string, tape, resume []byte) {
	if markF == nil {
		p := os.Getenv("VERIF_MARK_FILE")
		if p == "" {
			return
		}
		f, err := os.OpenFile(p, os.O_CREATE|os.O_RDWR, 0o600)
		if err != nil {
			return
		}
		markF = f
	}
	m := map[string]interface{}{"engine": "c04", "point": point, "what": what, "tape": json.RawMessage(tape)}
	if resume != nil {
		m["resume"] = json.RawMessage(resume)
	}
	b := core.MustJSON(m)
	pad := make([]byte, 0, 2048)
	pad = append(pad, b...)
	for len(pad) < 2048 {
		pad = append(pad, ' ')
	}
	markF.WriteAt(pad, 0)
}

var inDelivery atomic.Bool

// The watchdog lives outside the bubble and sees real time; code inside the bubble cannot read a real
// clock, so progress is observed as the delivery sequence number: the same number for 150 samples
// of 200ms while a delivery is in progress is a hang.
func startWatchdog() {
	if os.Getenv("VERIF_MODE") != "run" {
		return
	}
	const samples = 150
	go func() {
		last, same := int64(-1), 0
		for {
			time.Sleep(200 * time.Millisecond)
			cur := curSeq.Load()
			if !inDelivery.Load() || cur != last {
				last, same = cur, 0
				continue
			}
			same++
			if same < samples {
				continue
			}
			buf := make([]byte, 1<<20)
			n := runtime.Stack(buf, true)
			// the goroutine that runs the delivery; its innermost frame inside gokrb5 itself names the
			// loop (frames of dependencies above it change from sample to sample)
			frame, via := "?", ""
			for _, g := range strings.Split(string(buf[:n]), "\n\n") {
				if strings.Contains(g, "engines/c04.deliver") {
					frame = engine.TopFrame(g, "github.com/jcmturner/gokrb5/v8/")
					via = engine.TopFrame(g, "github.com/jcmturner/")
				}
			}
			frame = "gokrb5/v8/" + frame
			d, _ := curDelivery.Load().(string)
			r := core.Result{Engine: "c04", Verdict: "violation", Evals: 1, Class: "hang", Nontrivial: true,
				Violations: []core.Violation{{Signature: "hang|" + strings.SplitN(d, "|", 2)[0] + "|" + frame,
					Detail: core.MustJSON(map[string]string{"delivery": d, "wall_clock_limit": "30s", "frame": frame, "innermost_frame": via})}}}
			if t, ok := curTape.Load().([]byte); ok {
				r.Tape = t
			}
			b, _ := json.Marshal(r)
			os.Stdout.Write(append(append([]byte("RESULT "), b...), '\n'))
			os.Exit(0)
		}
	}()
}

var allocSample = []metrics.Sample{{Name: "/gc/heap/allocs:bytes"}}

func allocated() uint64 {
	metrics.Read(allocSample)
	return allocSample[0].Value.Uint64()
}

// arena is the read buffer damaged inputs are delivered in (see deliver); consumers do not write to
// their input.
var arena = make([]byte, 1<<20)

// allocation bound: c x bytes delivered + K
const allocC, allocK = 512, 4 << 20

func panicClass(msg string) string {
	for _, k := range []string{"index out of range", "slice bounds out of range", "nil pointer dereference", "makeslice", "invalid memory address", "out of memory", "integer divide by zero", "negative"} {
		if strings.Contains(msg, k) {
			return k
		}
	}
	if len(msg) > 40 {
		msg = msg[:40]
	}
	return msg
}

type deliveryDetail struct {
	Point    string          `json:"point"`
	Item     int             `json:"item"`
	Mode     string          `json:"mode"`
	Delivery int             `json:"delivery"`
	Damage   string          `json:"damage"`
	Len      int             `json:"bytes_delivered"`
	Panic    string          `json:"panic,omitempty"`
	Alloc    uint64          `json:"allocated,omitempty"`
	Repro    json.RawMessage `json:"repro_tape"`
}

// deliver hands b to the consumer and judges the call.
func deliver(res *core.Result, tp *Tape, pname string, item int, d int, desc string, b []byte, consume func([]byte)) {
	curDelivery.Store(fmt.Sprintf("%s|item %d|%s|%s", pname, item, tp.Mode, desc))
	rt := Tape{Engine: "c04", RunSeed: tp.RunSeed, Point: tp.Point, Item: item, Mode: tp.Mode, From: d, Count: 1, Arg: tp.Arg}
	if d < 0 {
		rt.From, rt.Count = 0, 0 // the undamaged item is always delivered first
	}
	repro := core.MustJSON(rt)
	curTape.Store([]byte(repro))
	var resume []byte
	if batchPos >= 0 {
		rs := *tp
		rs.Skip = batchPos + 1
		resume = core.MustJSON(rs)
	}
	mark(pname, desc, repro, resume)
	curSeq.Add(1)
	// every second delivery arrives the way bytes read from a socket or a file often do: as the first
	// len(b) bytes of a larger (here: zeroed) read buffer.  What lies behind the end of the input is
	// not part of it.
	inArena := d >= 0 && d%2 == 0 && len(b) <= len(arena)/2
	if inArena {
		copy(arena, b)
		b = arena[:len(b)]
		res.Faults["delivered-inside-a-larger-read-buffer"]++
	}
	inDelivery.Store(true)
	a0 := allocated()
	t0 := simrt.NowNs()
	panicked, frame, msg := engine.Guard(func() { consume(b) })
	a1 := allocated()
	inDelivery.Store(false)
	if inArena {
		for i := range b {
			b[i] = 0
		}
	}
	res.Evals++
	dd := deliveryDetail{Point: pname, Item: item, Mode: tp.Mode, Delivery: d, Damage: desc, Len: len(b), Repro: repro}
	if panicked && strings.Contains(msg, floodPanic) {
		// not a panic of the library: the harness unwound a consumer that kept asking its peer
		dd.Panic = "the consumer sent more than 200 requests to its peer within one call"
		engine.Violate(res, "nontermination|"+pname+"|request-flood", dd)
	} else if panicked {
		dd.Panic = msg
		engine.Violate(res, "panic|"+pname+"|"+frame+"|"+panicClass(msg), dd)
		res.Stats["panics"]++
	}
	if used := a1 - a0; used > uint64(allocC*len(b)+allocK) {
		dd.Alloc = used
		engine.Violate(res, "allocation|"+pname, dd)
	} else if r := int64(used) / int64(len(b)+1); r > res.Volatile["max_alloc_bytes_per_input_byte"] {
		if res.Volatile == nil {
			res.Volatile = map[string]int64{}
		}
		res.Volatile["max_alloc_bytes_per_input_byte"] = r
	}
	if dt := simrt.NowNs() - t0; dt > int64(10*time.Minute) {
		engine.Violate(res, "simulated-time-overrun|"+pname, dd)
	}
}

func run(tapeJSON json.RawMessage, res *core.Result) {
	var tp Tape
	if err := json.Unmarshal(tapeJSON, &tp); err != nil {
		res.Verdict, res.Harness = "invalid", err.Error()
		return
	}
	if tp.Count < 0 || tp.Count > 4*chunk || tp.From < 0 {
		res.Verdict, res.Harness = "invalid", "range"
		return
	}
	simsync.Passive = true
	res.Evals = 0
	if isFlow(tp.Mode) {
		runFlow(&tp, res)
		if res.Evals == 0 {
			res.Evals = 1
		}
		return
	}
	var p *point
	ps := points()
	for i := range ps {
		if ps[i].name == tp.Point {
			p = &ps[i]
		}
	}
	if p == nil || tp.Item < 0 || tp.Item >= len(p.items) {
		res.Verdict, res.Harness = "invalid", "no such point/item"
		return
	}
	item := p.items[tp.Item]
	// the undamaged item first: establishes that the corpus is accepted without incident
	if tp.Skip == 0 {
		deliver(res, &tp, p.name, tp.Item, -1, "undamaged", item, p.consume)
	}
	multiSeed = tp.RunSeed
	space := spaceOf(p, item, tp.Mode)
	rng := core.NewRng(tp.RunSeed).Derive("c04")
	for k := 0; k < tp.Count; k++ {
		d := tp.From + k
		if tp.Sample {
			d = rng.Intn(space)
		}
		if k < tp.Skip {
			continue
		}
		b, desc, ok := damage(p, item, tp.Mode, d)
		if !ok {
			break
		}
		batchPos = k
		deliver(res, &tp, p.name, tp.Item, d, desc, b, p.consume)
		batchPos = -1
		res.Faults[tp.Mode]++
	}
	if res.Evals == 0 {
		res.Evals = 1
	}
	res.Nontrivial = true
	res.Class = fmt.Sprintf("%s|%d|%s|%d+%d|%v", tp.Point, tp.Item, tp.Mode, tp.From, tp.Count, tp.Sample)
	res.Probes["deliveries-"+p.kind] += res.Evals
}
