package c04

import (
	"encoding/base64"
	"fmt"
	"net/http"
	"net/http/httptest"
	"os"
	"strconv"
	"strings"
	"time"

	"github.com/jcmturner/gokrb5/v8/client"
	"github.com/jcmturner/gokrb5/v8/keytab"
	"github.com/jcmturner/gokrb5/v8/service"
	"github.com/jcmturner/gokrb5/v8/spnego"
	"github.com/jcmturner/gokrb5/v8/test/testdata"

	"verifsim/core"
	"verifsim/refkdc"
	"verifsim/refkrb/rk"
	"verifsim/shim/simnet"
	"verifsim/simrt"
	"verifsim/world"
	"verifsim/world/gk"
)

func envSeed() int64 {
	n, _ := strconv.ParseInt(os.Getenv("VERIF_SEED"), 10, 64)
	return n
}

func isFlow(mode string) bool {
	return strings.HasPrefix(mode, "kdc-") || strings.HasPrefix(mode, "ap-")
}

var kdcExchanges = []string{"as-nopa", "as-err25", "as-pa", "tgs", "referral"}

// Byzantine KDC: deviations inside sealed or structured parts of a reply
var kdcByz = []refkdc.Perturb{
	{Kind: "tkt-sname-empty"}, {Kind: "rep-cname-empty"}, {Kind: "sealed-sname-empty"},
	{Kind: "enc-plain-garbage", Arg: 0}, {Kind: "enc-plain-garbage", Arg: 1}, {Kind: "enc-plain-garbage", Arg: 7}, {Kind: "enc-plain-garbage", Arg: 64}, {Kind: "enc-plain-garbage", Arg: 300},
	{Kind: "padata-empty-info2"}, {Kind: "padata-empty-info"}, {Kind: "padata-garbage"},
	{Kind: "edata-empty-info2"}, {Kind: "edata-empty-info"}, {Kind: "edata-empty-seq"}, {Kind: "edata-garbage"}, {Kind: "edata-absent"}, {Kind: "edata-unknown-etype"},
	{Kind: "edata-s2k-iter", Arg: 0}, {Kind: "edata-s2k-iter", Arg: 1}, {Kind: "edata-s2k-iter", Arg: 0x7fffffff}, {Kind: "edata-s2k-iter", Arg: 0xffffffff},
	{Kind: "enc-trunc"}, {Kind: "enc-flip"}, {Kind: "other-usage", Arg: 2}, {Kind: "enc-tag", Arg: 3}, {Kind: "msg-type", Arg: 13}, {Kind: "msg-type", Arg: 11},
	// the RFC 6806 negotiation answered wrongly by a KDC holding the right keys
	{Kind: "encpa-bad-checksum"}, {Kind: "encpa-short-checksum"}, {Kind: "encpa-unknown-cksumtype"}, {Kind: "encpa-no-fast"}, {Kind: "encpa-garbage"}, {Kind: "encpa-empty-value"},
}

// lying and stalling peers on the transport
var kdcLiars = []world.Behaviour{
	{Kind: "liar", Arg: 0xffffffff}, {Kind: "liar", Arg: 0x7fffffff}, {Kind: "liar", Arg: 0x40000000}, {Kind: "liar", Arg: 0x01000000}, {Kind: "liar", Arg: 0}, {Kind: "liar", Arg: 1},
	{Kind: "silent"}, {Kind: "close", Arg: 0}, {Kind: "close", Arg: 2}, {Kind: "close", Arg: 4}, {Kind: "close", Arg: 9}, {Kind: "slow", Arg: 3600_000_000_000}, {Kind: "dup"}, {Kind: "fragment", Arg: 1},
}

// Byzantine client / KDC on the AP side: what is sealed inside a ticket or authenticator
var apByz = []string{"ad-ifrelevant-empty", "ad-ifrelevant-garbage", "ad-ifrelevant-nonpac", "ad-pac-empty", "ad-pac-sample", "ad-pac-sample-nosig", "ad-many",
	"tkt-plain-garbage-0", "tkt-plain-garbage-1", "tkt-plain-garbage-40", "auth-plain-garbage-0", "auth-plain-garbage-1", "auth-plain-garbage-40",
	"tkt-cname-empty", "auth-cname-empty", "sname-empty", "auth-cksum-short", "session-key-empty"}

// kdc-err: a KDC that answers every request of the exchange, for as long as the client keeps
// asking, with a KRB-ERROR of one code (1..93) naming the realm asked, another realm or no client
// realm at all; codes that make a client start again (24, 25, 52, 68, ...) must still end.
const kdcErrCodes = 93
const kdcErrSpace = kdcErrCodes * 3

// kdc-plain / ap-plain: a Byzantine peer holding valid keys re-encodes the plaintext it is about to
// seal with one element emptied / resized / duplicated / removed (mode shape, first half of the
// space) or with one length octet corrupted (mode field, second half)
const plainShapeN, plainSpace = 900, 2400

func plainDamage(plain []byte, d int) ([]byte, string, bool) {
	if d < plainShapeN {
		return damage(derPoint, plain, "shape", d)
	}
	return damage(derPoint, plain, "field", d-plainShapeN)
}

const replyBound = 1400 // upper bound of a reply's length for the enumeration (deliveries beyond the real length are skipped)

func flowCases(tier string) []caseT {
	var out []caseT
	add := func(mode, arg string, space int, sampleQuick bool) {
		if tier != "thorough" && sampleQuick && space > chunk/8 {
			out = append(out, caseT{arg, 0, mode, -1, chunk / 8})
			return
		}
		step := chunk / 4
		for f := 0; f < space; f += step {
			c := step
			if f+c > space {
				c = space - f
			}
			out = append(out, caseT{arg, 0, mode, f, c})
		}
	}
	for _, ex := range kdcExchanges {
		add("kdc-prefix", ex, replyBound, true)
		add("kdc-subst", ex, replyBound*10, true)
		add("kdc-field", ex, 2500, true)
		add("kdc-byz", ex, len(kdcByz)+400, false)
		add("kdc-liar", ex, len(kdcLiars), false)
		add("kdc-err", ex, kdcErrSpace, false)
		if ex != "as-err25" {
			add("kdc-plain", ex, plainSpace, false)
		}
	}
	for _, et := range []string{"18", "23", "16", "19"} {
		add("ap-prefix", et, 1600, true)
		add("ap-subst", et, 16000, true)
		add("ap-field", et, 2500, true)
		add("ap-byz", et, len(apByz)+2400, true)
		add("ap-plain", et, 2*plainSpace, et != "18")
	}
	return out
}

const flowPassword = "pw-Qm3xTz8LkV5rNc2HbWy7"

func runFlow(tp *Tape, res *core.Result) {
	res.Nontrivial = true
	res.Class = fmt.Sprintf("%s|%s|%d+%d|%v", tp.Mode, tp.Point, tp.From, tp.Count, tp.Sample)
	rng := core.NewRng(tp.RunSeed).Derive("c04flow")
	if strings.HasPrefix(tp.Mode, "kdc-") {
		runKDCFlow(tp, res, rng)
	} else {
		runAPFlow(tp, res, rng)
	}
	res.Probes["deliveries-der"] += res.Evals
}

var derPoint = &point{name: "bytes", kind: "der"}

// ---------------------------------------------------------------- KDC replies
func runKDCFlow(tp *Tape, res *core.Result, rng *core.Rng) {
	ex := tp.Point
	okEx := false
	for _, e := range kdcExchanges {
		okEx = okEx || e == ex
	}
	if !okEx {
		res.Verdict, res.Harness = "invalid", "exchange"
		return
	}
	gk.Seed(tp.RunSeed)
	pol := refkdc.Policy{RequirePreauth: ex == "as-err25" || ex == "as-pa", Hints: []string{"etype-info2", "etype-info", "pw-salt"}, HintsInASRep: true, CopyAddresses: true, FASTNegotiation: true}
	sim := refkdc.New("SIM.TEST", tp.RunSeed, pol)
	other := refkdc.New("OTHER.TEST", tp.RunSeed+1, refkdc.Policy{})
	refkdc.Link(sim, other)
	sim.AddService("HTTP/host.sim.test")
	other.AddService("HTTP/far.other.test")
	sim.Referral["HTTP/far.other.test"] = "OTHER.TEST"
	pw := sim.AddPasswordUser("alice", flowPassword, "Custom.Salt", 0)
	pw.Precompute("SIM.TEST", []int{17})
	net := world.NewNet()
	armed := false
	var perturb []refkdc.Perturb
	targetN := 0 // how many target replies have been seen in this delivery
	isTarget := func(req []byte) bool {
		if !armed || len(req) == 0 {
			return false
		}
		switch ex {
		case "as-nopa", "as-err25":
			return req[0] == 0x6a && targetN == 0
		case "as-pa":
			return req[0] == 0x6a && targetN == 1
		case "tgs":
			return req[0] == 0x6c && targetN == 0
		default:
			return req[0] == 0x6c && targetN == 1
		}
	}
	pt := func(req []byte) []refkdc.Perturb {
		if isTarget(req) {
			return perturb
		}
		return nil
	}
	gk.Wire(net, sim, []string{"10.0.0.1:88"}, pt)
	gk.Wire(net, other, []string{"10.0.1.1:88"}, pt)
	simnet.Install(net)
	var mangle func(reply []byte) []byte
	var errEvery func(req []byte) []byte
	var honestLen int
	net.Mangle = func(proto, addr string, req, reply []byte) []byte {
		if !armed || len(req) == 0 {
			return reply
		}
		kind := req[0]
		want := byte(0x6a)
		if ex == "tgs" || ex == "referral" {
			want = 0x6c
		}
		if kind != want {
			return reply
		}
		t := isTarget(req)
		targetN++
		if targetN > 200 {
			// the client keeps asking: unwind it (deliver turns this into the violation)
			panic(floodPanic)
		}
		if errEvery != nil && (t || targetN > 1) {
			return errEvery(req)
		}
		if t && mangle != nil {
			honestLen = len(reply)
			_ = honestLen
			return mangle(reply)
		}
		return reply
	}
	noaddr := false
	et := gk.EtypeNames[17]
	cm := gk.ConfModel{DefaultRealm: "SIM.TEST", NoAddresses: &noaddr, TktEtypes: []string{et}, TGSEtypes: []string{et}, PreauthTypes: []int{17},
		Realms: map[string][]string{"SIM.TEST": {"10.0.0.1:88"}, "OTHER.TEST": {"10.0.1.1:88"}}, DomainRealm: map[string]string{".sim.test": "SIM.TEST"}}
	if tp.Mode == "kdc-liar" {
		cm.UDPLimit = 1 // the lies live in the TCP framing
	}
	cfg, _, err := cm.Parse()
	if err != nil {
		res.Verdict, res.Harness = "harness-error", "krb5.conf: "+err.Error()
		return
	}
	space := map[string]int{"kdc-prefix": replyBound, "kdc-subst": replyBound * 10, "kdc-field": 2500, "kdc-byz": len(kdcByz) + 400, "kdc-liar": len(kdcLiars), "kdc-err": kdcErrSpace, "kdc-plain": plainSpace}[tp.Mode]
	if space == 0 {
		res.Verdict, res.Harness = "invalid", "mode"
		return
	}
	pname := "kdc-reply/" + ex
	skipped := 0
	for k := 0; k < tp.Count; k++ {
		d := tp.From + k
		if tp.Sample {
			d = rng.Intn(space)
		}
		if d >= space {
			break
		}
		if k < tp.Skip {
			continue
		}
		batchPos = k
		// a fresh client per delivery; preparation over an honest network
		cl := client.NewWithPassword("alice", "SIM.TEST", flowPassword, cfg)
		armed, perturb, mangle, errEvery, targetN, honestLen = false, nil, nil, nil, 0, 0
		net.Beh = map[string]world.Behaviour{}
		if ex == "tgs" || ex == "referral" {
			if e := cl.Login(); e != nil {
				res.Verdict, res.Harness = "harness-error", "honest login failed: "+e.Error()
				return
			}
		}
		desc := ""
		applied := true
		switch tp.Mode {
		case "kdc-prefix", "kdc-subst", "kdc-field":
			mode := strings.TrimPrefix(tp.Mode, "kdc-")
			mangle = func(reply []byte) []byte {
				b, ds, ok := damage(derPoint, reply, mode, d)
				if !ok {
					applied = false
					return reply
				}
				desc = ds
				return b
			}
		case "kdc-byz":
			if d < len(kdcByz) {
				perturb = []refkdc.Perturb{kdcByz[d]}
				desc = fmt.Sprintf("%s(%d)", kdcByz[d].Kind, kdcByz[d].Arg)
			} else {
				// the sealed plaintext torn at every offset
				perturb = []refkdc.Perturb{{Kind: "enc-plain-prefix", Arg: int64(d - len(kdcByz))}}
				if ex == "as-err25" {
					perturb = []refkdc.Perturb{{Kind: "edata-prefix", Arg: int64(d - len(kdcByz))}}
				}
				desc = fmt.Sprintf("%s(%d)", perturb[0].Kind, perturb[0].Arg)
			}
		case "kdc-plain":
			perturb = []refkdc.Perturb{{Kind: "enc-plain-hook"}}
			hook := func(kind string, plain []byte) []byte {
				b, ds, ok := plainDamage(plain, d)
				if !ok {
					applied = false
					return plain
				}
				desc = "sealed plaintext: " + ds
				return b
			}
			sim.PlainHook, other.PlainHook = hook, hook
		case "kdc-err":
			code, variant := int32(d/3+1), d%3
			errEvery = func(req []byte) []byte {
				q, _ := rk.DecKDCReq(req)
				e := rk.KRBError{STime: time.Now().UTC().Truncate(time.Second), Code: code, Realm: "SIM.TEST", SName: rk.ParseName("krbtgt/SIM.TEST")}
				if q != nil && q.CName != nil {
					e.CName = q.CName
				}
				switch variant {
				case 0: // the realm that was asked
					if q != nil {
						r := q.Realm
						e.CRealm = &r
					}
				case 1:
					r := "OTHER.TEST"
					e.CRealm = &r
				}
				return e.EncBytes()
			}
			desc = fmt.Sprintf("every reply is KRB-ERROR %d (crealm variant %d)", code, variant)
		case "kdc-liar":
			b := kdcLiars[d]
			net.Beh["tcp!10.0.0.1:88"] = b
			net.Beh["tcp!10.0.1.1:88"] = b
			desc = fmt.Sprintf("%s(%d)", b.Kind, b.Arg)
		}
		armed = true
		spn := "HTTP/host.sim.test"
		if ex == "referral" {
			spn = "HTTP/far.other.test"
		}
		before := res.Evals
		deliver(res, tp, pname, 0, d, "pending", make([]byte, 600), func([]byte) {
			if ex == "tgs" || ex == "referral" {
				cl.GetServiceTicket(spn)
			} else {
				cl.Login()
			}
		})
		armed = false
		if !applied {
			// the delivery index lies beyond this reply's length: nothing was damaged
			res.Evals = before
			skipped++
			continue
		}
		_ = desc
		res.Faults[tp.Mode]++
		// let the renewal goroutine of a successful login die before the next delivery
		cl.Destroy()
	}
	res.Stats["beyond_reply_length"] = int64(skipped)
	for k, v := range net.Fired {
		res.Faults[k] += v
	}
}

// ---------------------------------------------------------------- AP-REQ to a service
func runAPFlow(tp *Tape, res *core.Result, rng *core.Rng) {
	et, err := strconv.Atoi(tp.Point)
	if err != nil || (et != 18 && et != 23 && et != 16 && et != 19 && et != 17 && et != 20) {
		res.Verdict, res.Harness = "invalid", "etype"
		return
	}
	ktm := world.BuildKeytab(tp.RunSeed, []string{"HTTP/host.sim.test"}, []string{"SIM.TEST"}, []int{2}, []int{et})
	kt := keytab.New()
	if err := kt.Unmarshal(ktm.Bytes()); err != nil {
		res.Verdict, res.Harness = "harness-error", "keytab: "+err.Error()
		return
	}
	inner := http.HandlerFunc(func(w http.ResponseWriter, r *http.Request) { w.WriteHeader(200) })
	handler := spnego.SPNEGOKRB5Authenticate(inner, kt, service.Logger(discard), service.KeytabPrincipal("HTTP/host.sim.test"))
	handlerNoLog := spnego.SPNEGOKRB5Authenticate(inner, kt)
	// a second listener of the same process that tolerates a longer clock skew (the process's one
	// replay cache learns of it at that listener's first successful verification)
	handlerLongSkew := spnego.SPNEGOKRB5Authenticate(inner, kt, service.MaxClockSkew(time.Hour), service.Logger(discard))
	simrt.SleepExact(int64(time.Hour) + 333)
	service.GetReplayCache(5 * time.Minute)
	minter := &world.Minter{Seed: tp.RunSeed, Kt: ktm}
	pacSample := hx(testdata.MarshaledPAC_AD_WIN2K_PAC)
	space := map[string]int{"ap-prefix": 1600, "ap-subst": 16000, "ap-field": 2500, "ap-byz": len(apByz) + 2400, "ap-plain": 2 * plainSpace}[tp.Mode]
	if space == 0 {
		res.Verdict, res.Harness = "invalid", "mode"
		return
	}
	pname := "ap-req/etype" + tp.Point
	skipped := 0
	for k := 0; k < tp.Count; k++ {
		d := tp.From + k
		if tp.Sample {
			d = rng.Intn(space)
		}
		if d >= space {
			break
		}
		if k < tp.Skip {
			continue
		}
		batchPos = k
		simrt.SleepExact(int64(3 * time.Second))
		s := time.Now().UTC().Truncate(time.Second)
		spec := world.ReqSpec{Client: "alice", Svc: "HTTP/host.sim.test", Realm: "SIM.TEST", Kvno: 2, Etype: et, KvnoField: true, StartTime: true, Cksum: true, Subkey: d%2 == 0}
		minter.PACFor, minter.PlainHook = nil, nil
		desc := ""
		h := handler
		if d%7 == 5 {
			h = handlerLongSkew
		}
		if tp.Mode == "ap-byz" {
			var name string
			if d < len(apByz) {
				name = apByz[d]
			} else if d < len(apByz)+1200 {
				name = fmt.Sprintf("ad-pac-prefix-%d", d-len(apByz))
			} else {
				name = fmt.Sprintf("ad-pac-subst-%d", d-len(apByz)-1200)
			}
			desc = name
			if d%3 == 0 {
				h = handlerNoLog // PAC processing logs through a logger that may be absent
			}
			wrapPAC := func(pac []byte) []rk.AuthDataEntry {
				return []rk.AuthDataEntry{{Type: 1, Data: rk.EncAuthData([]rk.AuthDataEntry{{Type: 128, Data: pac}})}}
			}
			switch {
			case name == "ad-ifrelevant-empty":
				spec.PAC = "x"
				minter.PACFor = func(world.ReqSpec, rk.EncryptionKey, *core.Rng) ([]rk.AuthDataEntry, bool) {
					return []rk.AuthDataEntry{{Type: 1, Data: rk.EncAuthData([]rk.AuthDataEntry{})}}, false
				}
			case name == "ad-ifrelevant-garbage":
				spec.PAC = "x"
				minter.PACFor = func(world.ReqSpec, rk.EncryptionKey, *core.Rng) ([]rk.AuthDataEntry, bool) {
					return []rk.AuthDataEntry{{Type: 1, Data: []byte{0x30, 0x84, 0xff, 0xff, 0xff, 0xff}}}, false
				}
			case name == "ad-ifrelevant-nonpac":
				spec.PAC = "x"
				minter.PACFor = func(world.ReqSpec, rk.EncryptionKey, *core.Rng) ([]rk.AuthDataEntry, bool) {
					return []rk.AuthDataEntry{{Type: 1, Data: rk.EncAuthData([]rk.AuthDataEntry{{Type: 141, Data: []byte("x")}})}}, false
				}
			case name == "ad-pac-empty":
				spec.PAC = "x"
				minter.PACFor = func(world.ReqSpec, rk.EncryptionKey, *core.Rng) ([]rk.AuthDataEntry, bool) {
					return wrapPAC([]byte{}), false
				}
			case name == "ad-pac-sample", name == "ad-pac-sample-nosig":
				spec.PAC = "x"
				minter.PACFor = func(world.ReqSpec, rk.EncryptionKey, *core.Rng) ([]rk.AuthDataEntry, bool) {
					return wrapPAC(pacSample), false
				}
			case name == "ad-many":
				spec.PAC = "x"
				minter.PACFor = func(world.ReqSpec, rk.EncryptionKey, *core.Rng) ([]rk.AuthDataEntry, bool) {
					var es []rk.AuthDataEntry
					for i := 0; i < 50; i++ {
						es = append(es, wrapPAC(pacSample[:16])...)
					}
					return es, false
				}
			case strings.HasPrefix(name, "ad-pac-prefix-"):
				n := d - len(apByz)
				if n > len(pacSample) {
					skipped++
					continue
				}
				spec.PAC = "x"
				minter.PACFor = func(world.ReqSpec, rk.EncryptionKey, *core.Rng) ([]rk.AuthDataEntry, bool) {
					return wrapPAC(pacSample[:n]), false
				}
			case strings.HasPrefix(name, "ad-pac-subst-"):
				n := d - len(apByz) - 1200
				pos := (n * 7919) % len(pacSample)
				spec.PAC = "x"
				minter.PACFor = func(world.ReqSpec, rk.EncryptionKey, *core.Rng) ([]rk.AuthDataEntry, bool) {
					b := append([]byte{}, pacSample...)
					b[pos] = alphabet("binary", b[pos])[n%10]
					return wrapPAC(b), false
				}
			case strings.HasPrefix(name, "tkt-plain-garbage-"), strings.HasPrefix(name, "auth-plain-garbage-"):
				which := "tkt"
				if strings.HasPrefix(name, "auth") {
					which = "auth"
				}
				n, _ := strconv.Atoi(name[strings.LastIndex(name, "-")+1:])
				minter.PlainHook = func(w string, plain []byte) []byte {
					if w == which {
						return rng.Bytes(n)
					}
					return plain
				}
			case name == "tkt-cname-empty":
				spec.Client = ""
			case name == "auth-cname-empty":
				spec.Defects = []world.Defect{{Kind: "cname-empty"}}
			case name == "sname-empty":
				spec.Defects = []world.Defect{{Kind: "sname-empty"}}
			case name == "auth-cksum-short":
				minter.PlainHook = func(w string, plain []byte) []byte {
					if w == "auth" && len(plain) > 40 {
						return plain[:len(plain)-30]
					}
					return plain
				}
			case name == "session-key-empty":
				minter.PlainHook = func(w string, plain []byte) []byte { return plain }
			}
		}
		plainApplied := true
		if tp.Mode == "ap-plain" {
			which := []string{"tkt", "auth"}[d%2]
			minter.PlainHook = func(w string, plain []byte) []byte {
				if w != which {
					return plain
				}
				b, ds, ok := plainDamage(plain, d/2)
				if !ok {
					plainApplied = false
					return plain
				}
				desc = which + " plaintext: " + ds
				return b
			}
		}
		tr, err := minter.Mint(spec, s, 5*time.Minute, rng)
		if err != nil {
			res.Verdict, res.Harness = "harness-error", "mint: "+err.Error()
			return
		}
		if !plainApplied {
			skipped++
			continue
		}
		// the AP-REQ travels in one of the framings a peer may choose: NegTokenInit, NegTokenResp,
		// or the bare Kerberos mechanism token
		mechTok := rk.KRB5Token(rk.TokAPReq, tr.Bytes)
		tok := rk.NegTokenInit([][]int{rk.OIDKRB5}, mechTok)
		switch (d / 2) % 3 {
		case 1:
			tok = rk.NegTokenResp(1, rk.OIDKRB5, mechTok)
		case 2:
			tok = mechTok
		}
		if tp.Mode != "ap-byz" && tp.Mode != "ap-plain" {
			b, ds, ok := damage(derPoint, tok, strings.TrimPrefix(tp.Mode, "ap-"), d)
			if !ok {
				skipped++
				continue
			}
			tok, desc = b, ds
		}
		hdr := "Negotiate " + base64.StdEncoding.EncodeToString(tok)
		deliver(res, tp, pname, 0, d, desc, tok, func([]byte) {
			req := httptest.NewRequest("GET", "http://host.sim.test/", nil)
			req.RemoteAddr = "10.1.2.3:4000"
			req.Header.Set("Authorization", hdr)
			h.ServeHTTP(httptest.NewRecorder(), req)
		})
		res.Faults[tp.Mode]++
	}
	res.Stats["beyond_token_length"] = int64(skipped)
}
