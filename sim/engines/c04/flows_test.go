package c04

import (
	"os"
	"strconv"

	"verifsim/core"
)

func envSeed() int64 {
	n, _ := strconv.ParseInt(os.Getenv("VERIF_SEED"), 10, 64)
	return n
}

func isFlow(mode string) bool { return false }

func flowCases(tier string) []caseT { return nil }

func runFlow(tp *Tape, res *core.Result) {}
