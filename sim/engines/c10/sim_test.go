package c10

import (
	"encoding/json"
	"fmt"
	"sort"
	"strings"
	"testing"
	"time"

	"github.com/jcmturner/gokrb5/v8/client"
	"github.com/jcmturner/gokrb5/v8/credentials"
	"github.com/jcmturner/gokrb5/v8/keytab"
	"github.com/jcmturner/gokrb5/v8/types"

	"verifsim/core"
	"verifsim/engine"
	"verifsim/refkdc"
	"verifsim/refkrb/rk"
	"verifsim/shim/simnet"
	"verifsim/simrt"
	"verifsim/world"
	"verifsim/world/gk"
)

type eng struct{}

func (eng) Meta() core.Meta                             { return Meta() }
func (eng) Gen(c, tier string) (json.RawMessage, error) { return Gen(c, tier) }
func (eng) Run(tape json.RawMessage, res *core.Result)  { run(tape, res) }
func TestSim(t *testing.T)                              { engine.Main(t, eng{}) }

const asciiPassword = "pw-Zt5qLm8RkV2xNc7HbWy3"

type opRec struct {
	I       int    `json:"i"`
	Op      string `json:"op"`
	SPN     string `json:"spn,omitempty"`
	Invoke  int64  `json:"invoke_ns"`
	Return  int64  `json:"return_ns"`
	Err     string `json:"err,omitempty"`
	OK      bool   `json:"ok"`
	Cipher  []byte `json:"-"`
	Key     []byte `json:"-"`
	KeyType int32  `json:"-"`
	Skipped bool   `json:"skipped,omitempty"`
	Panic   string `json:"panic,omitempty"`
}

func parseDur(s string, def time.Duration) time.Duration {
	switch s {
	case "":
		return def
	case "600":
		return 600 * time.Second
	case "10h":
		return 10 * time.Hour
	case "1d":
		return 24 * time.Hour
	case "0h20m":
		return 20 * time.Minute
	case "1h":
		return time.Hour
	case "7d":
		return 7 * 24 * time.Hour
	case "2d":
		return 48 * time.Hour
	}
	return -1
}

func etIDs(names []string) []int32 {
	var out []int32
	for _, n := range names {
		for id, nm := range gk.EtypeNames {
			if nm == n {
				out = append(out, int32(id))
			}
		}
	}
	return out
}

func eq32(a, b []int32) bool {
	if len(a) != len(b) {
		return false
	}
	for i := range a {
		if a[i] != b[i] {
			return false
		}
	}
	return true
}

func run(tapeJSON json.RawMessage, res *core.Result) {
	var tp Tape
	if err := json.Unmarshal(tapeJSON, &tp); err != nil {
		res.Verdict, res.Harness = "invalid", err.Error()
		return
	}
	password := asciiPassword
	if tp.Password != "" {
		password = tp.Password
		res.Probes["password-outside-ascii"]++
	}
	if tp.Policy.ClockOffset != 0 {
		res.Probes["kdc-clock-differs-from-the-clients"]++
	}
	if tp.Conf.EtypeSep != "" {
		res.Probes["etype-lists-separated-by-commas-or-tabs"]++
	}
	tktLife, renewLife := parseDur(tp.Conf.TicketLifetime, 24*time.Hour), parseDur(tp.Conf.RenewLifetime, 0)
	if len(tp.Ops) < 1 || len(tp.Ops) > 60 || tp.Chain < 0 || tp.Chain > 8 || tktLife < 0 || renewLife < 0 ||
		len(tp.Conf.TktEtypes) == 0 || len(tp.Conf.TGSEtypes) == 0 || (tp.Cred != "keytab" && tp.Cred != "password" && tp.Cred != "ccache") {
		res.Verdict, res.Harness = "invalid", "shape"
		return
	}
	tktIDs, tgsIDs := etIDs(tp.Conf.TktEtypes), etIDs(tp.Conf.TGSEtypes)
	if len(tktIDs) != len(tp.Conf.TktEtypes) || len(tgsIDs) != len(tp.Conf.TGSEtypes) {
		res.Verdict, res.Harness = "invalid", "etype names"
		return
	}
	gk.Seed(tp.RunSeed)
	// ---- the world
	net := world.NewNet()
	kdcs := map[string]*refkdc.KDC{}
	pol := tp.Policy
	pol.CopyAddresses = true // RFC 4120 3.1.3: the KDC copies the requested addresses into the ticket
	sim := refkdc.New("SIM.TEST", tp.RunSeed, pol)
	kdcs["SIM.TEST"] = sim
	gk.Wire(net, sim, []string{"10.0.0.1:88", "10.0.0.2:88"}, nil)
	for _, s := range []string{"HTTP/host.sim.test", "HTTP/web.sim.test", "cifs/files.sim.test"} {
		sim.AddService(s)
	}
	conf := tp.Conf
	conf.Realms = map[string][]string{}
	for k, v := range tp.Conf.Realms {
		conf.Realms[k] = v
	}
	if len(conf.Realms["SIM.TEST"]) == 0 {
		conf.Realms["SIM.TEST"] = []string{"10.0.0.1:88"}
	}
	// preferred_preauth_types is a list of pre-authentication data types (default 17, 16, 15, 14): it
	// says nothing about encryption types, whatever numbers it holds
	conf.PreauthTypes = nil
	if tp.PreauthPref != 0 {
		conf.PreauthTypes = []int{tp.PreauthPref}
	}
	prev := sim
	for i := 1; i <= tp.Chain; i++ {
		realm := fmt.Sprintf("R%d.TEST", i)
		k := refkdc.New(realm, tp.RunSeed+uint64(i), refkdc.Policy{CopyAddresses: true, OmitStartTime: tp.Policy.OmitStartTime, MaxLifeS: tp.Policy.MaxLifeS, LenientAuthCRealm: tp.Policy.LenientAuthCRealm, ClockOffset: tp.Policy.ClockOffset, ExpiryGraceS: tp.Policy.ExpiryGraceS})
		addr := fmt.Sprintf("10.0.%d.1:88", i)
		gk.Wire(net, k, []string{addr}, nil)
		kdcs[realm] = k
		conf.Realms[realm] = []string{addr}
		refkdc.Link(prev, k)
		prev.Referral["HTTP/far.sim.test"] = realm
		prev = k
	}
	if tp.Chain > 0 {
		if tp.Cycle {
			first := kdcs["R1.TEST"]
			if prev != first {
				refkdc.Link(prev, first)
				prev.Referral["HTTP/far.sim.test"] = "R1.TEST"
			} else {
				refkdc.Link(prev, sim)
				prev.Referral["HTTP/far.sim.test"] = "SIM.TEST"
			}
		} else {
			prev.AddService("HTTP/far.sim.test")
		}
	}
	var up *refkdc.Principal
	if tp.Cred == "keytab" || tp.Cred == "ccache" {
		kv := 5
		if tp.UserKvno > 0 {
			kv = tp.UserKvno
		}
		up = sim.AddKeyUser("alice", kv)
		if tp.OneKeyOnly && tp.Cred == "keytab" {
			for et := range up.Keys {
				if et != int(tktIDs[0]) {
					delete(up.Keys, et)
				}
			}
		}
	} else {
		up = sim.AddPasswordUser("alice", password, tp.Salt, tp.Iter)
		var ets []int
		for _, e := range tktIDs {
			ets = append(ets, int(e))
		}
		up.Precompute("SIM.TEST", ets)
	}
	_ = up
	simnet.Install(net)
	cfg, confText, err := conf.Parse()
	if err != nil {
		res.Verdict, res.Harness = "harness-error", "krb5.conf rejected: "+err.Error()+"\n"+confText
		return
	}
	opts := []func(*client.Settings){client.AssumePreAuthentication(tp.AssumePreauth), client.DisablePAFXFAST(tp.DisableFAST)}
	var cl *client.Client
	if tp.Cred == "keytab" {
		var kt *keytab.Keytab
		if tp.MergedKt != 0 {
			kt, _, err = gk.UserKeytabMerged(sim, "alice", uint64(tp.MergedKt))
			res.Probes["keytab-shared-with-other-principals-or-older-keys"]++
		} else {
			kt, _, err = gk.UserKeytab(sim, "alice")
		}
		if err != nil {
			res.Verdict, res.Harness = "harness-error", "keytab: "+err.Error()
			return
		}
		cl = client.NewWithKeytab("alice", "SIM.TEST", kt, cfg, opts...)
	} else if tp.Cred == "ccache" {
		// a credential cache left behind by another program (kinit): a TGT and, in half of the runs,
		// a service ticket, both issued by the reference KDC a moment ago; the file is written by
		// the reference implementation and read by the real parser
		var ccOpts uint32
		if tp.Conf.Forwardable {
			ccOpts |= rk.Bit(rk.FlagForwardable)
		}
		if tp.Conf.Proxiable {
			ccOpts |= rk.Bit(rk.FlagProxiable)
		}
		cn := rk.ParseName("alice")
		cn.Type = 1
		var creds []rk.CCacheCred
		names := []string{"krbtgt/SIM.TEST"}
		if tp.RunSeed%2 == 0 {
			names = append(names, "HTTP/host.sim.test")
		}
		for _, sn := range names {
			is, e := sim.DirectAS("alice", sn, tktIDs, ccOpts, tktLife, renewLife, nil)
			if e != nil {
				res.Verdict, res.Harness = "harness-error", "credential cache: "+e.Error()
				return
			}
			c := rk.CCacheCred{Client: cn, CRealm: "SIM.TEST", Server: rk.ParseName(sn), SRealm: "SIM.TEST", Key: is.SessionKey,
				Auth: uint32(is.AuthTime.Unix()), Start: uint32(is.Start.Unix()), End: uint32(is.End.Unix()), Flags: is.Flags, Ticket: is.TicketRaw}
			c.Server.Type = 2
			if is.RenewTill != nil {
				c.RT = uint32(is.RenewTill.Unix())
			}
			creds = append(creds, c)
		}
		cc := new(credentials.CCache)
		if e := cc.Unmarshal(rk.WriteCCache(cn, "SIM.TEST", creds)); e != nil {
			res.Verdict, res.Harness = "harness-error", "credential cache rejected by the parser: "+e.Error()
			return
		}
		cl, err = client.NewFromCCache(cc, cfg, opts...)
		if err != nil {
			res.Verdict, res.Harness = "harness-error", "NewFromCCache: "+err.Error()
			return
		}
		res.Probes["credential-cache-client"]++
	} else {
		cl = client.NewWithPassword("alice", "SIM.TEST", password, cfg, opts...)
	}
	var realms []string
	for r := range kdcs {
		realms = append(realms, r)
	}
	sort.Strings(realms)
	allIssues := func() []refkdc.Issue {
		var out []refkdc.Issue
		for _, r := range realms {
			out = append(out, kdcs[r].Issues()...)
		}
		sort.SliceStable(out, func(i, j int) bool { return out[i].At.Before(out[j].At) })
		return out
	}
	epoch := time.Now()
	at := func(t time.Time) int64 { return int64(t.Sub(epoch)) }
	latest := func(match func(refkdc.Issue) bool) *refkdc.Issue {
		var best *refkdc.Issue
		is := allIssues()
		for i := range is {
			if match(is[i]) && (best == nil || is[i].At.After(best.At)) {
				best = &is[i]
			}
		}
		return best
	}
	// ---- guards against runs that cannot be simulated to their end
	reqsInOp := 0
	engine.AbortHook = func(kind, detail string, r *core.Result) {
		switch kind {
		case "dial-flood":
			engine.Violate(r, "unbounded-connection-attempts", map[string]string{"detail": detail})
		case "request-flood":
			engine.Violate(r, "referral.unbounded", map[string]string{"detail": detail, "config": fmt.Sprintf("chain=%d cycle=%v", tp.Chain, tp.Cycle)})
		case "request-budget":
			// a short-lived renewable ticket is renewed about once per remaining-life for as long as its
			// renew-till allows (a 2-second cross-realm TGT: once a second for days).  That is what
			// renewal means, not a defect, but a run that sleeps for days next to it costs millions of
			// simulated exchanges: the run ends here, like one that fills the task table
			r.Stats["truncated_request_budget"] = 1
			r.Class = "truncated"
		case "task-table-full":
			// more library goroutines than the scheduler has slots (a run with hundreds of re-logins):
			// the run ends here; what was judged online stands, the rest is not judged
			r.Stats["truncated_task_table_full"] = 1
			r.Class = "truncated"
		default:
			r.Verdict, r.Harness = "harness-error", kind+": "+detail
		}
	}
	reqsInRun := 0
	net.Mangle = func(proto, addr string, req, reply []byte) []byte {
		reqsInRun++
		if reqsInRun > 15000 {
			simrt.Abort("request-budget", fmt.Sprintf("%d KDC requests within one run", reqsInRun))
		}
		if simrt.Cur().ID == 1 {
			reqsInOp++
			if reqsInOp > 300 {
				simrt.Abort("request-flood", fmt.Sprintf("%d KDC requests within one operation", reqsInOp))
			}
		}
		return reply
	}
	dialsInOp, dialsInRun := 0, 0
	net.OnDial = func(proto, addr string) {
		dialsInRun++
		if dialsInRun > 60000 {
			simrt.Abort("request-budget", fmt.Sprintf("%d connection attempts within one run", dialsInRun))
		}
		if simrt.Cur().ID == 1 {
			dialsInOp++
			if dialsInOp > 1000 {
				simrt.Abort("dial-flood", fmt.Sprintf("%d connection attempts within one operation", dialsInOp))
			}
		}
	}
	// ---- the workload
	recs := make([]opRec, 0, len(tp.Ops))
	destroyedAt := int64(-1)
	var outages [][2]int64 // [down, up) in simulated ns; up = -1 while the outage lasts
	sched := simrt.Sched{Seed: tp.RunSeed, Mode: []string{"min", "fast", "mixed"}[tp.RunSeed%3]}
	done := simrt.Spawn(1, "user", sched, func() {
		for i, op := range tp.Ops {
			r := opRec{I: i, Op: op.Op, SPN: op.SPN}
			switch op.Op {
			case "net_down":
				if n := len(outages); n > 0 && outages[n-1][1] < 0 {
					continue
				}
				b := world.Behaviour{Kind: op.Fault}
				switch op.Fault {
				case "close-mid":
					b = world.Behaviour{Kind: "close", Arg: 6}
				case "refuse", "silent", "close":
				default:
					b.Kind = "refuse"
				}
				net.Down.Store(&b)
				outages = append(outages, [2]int64{simrt.NowNs(), -1})
				simrt.Logf("network outage begins (%s)", op.Fault)
				continue
			case "net_up":
				if n := len(outages); n > 0 && outages[n-1][1] < 0 {
					net.Down.Store(nil)
					outages[n-1][1] = simrt.NowNs()
					simrt.Logf("network outage ends")
				}
				continue
			case "sleep":
				if op.Ns > 0 && op.Ns < int64(30*24*time.Hour) {
					simrt.SleepNs(op.Ns, "wait")
				}
				continue
			case "sleep_to":
				var ref *time.Time
				tgt := latest(func(x refkdc.Issue) bool { return x.SName == "krbtgt/SIM.TEST" && x.Realm == "SIM.TEST" })
				switch op.Ref {
				case "tgt_end":
					if tgt != nil {
						ref = &tgt.End
					}
				case "tgt_renew_point":
					if tgt != nil {
						t := tgt.At.Add(tgt.End.Sub(tgt.At) * 5 / 6)
						ref = &t
					}
				case "tgt_renew_till":
					if tgt != nil {
						ref = tgt.RenewTill
					}
				case "tkt_end":
					if x := latest(func(x refkdc.Issue) bool { return x.SName == op.SPN && x.Kind != "referral" }); x != nil {
						ref = &x.End
					}
				}
				if ref != nil {
					d := ref.Add(time.Duration(op.Delta)).Sub(time.Now())
					if d > 0 && d < 30*24*time.Hour {
						simrt.SleepNs(int64(d), "wait-to-"+op.Ref)
						if op.Delta >= -1_000_000_000 && op.Delta <= 1_000_000_000 {
							res.Probes["wait-lands-within-1s-of-end"]++
						}
					}
				}
				continue
			}
			r.Invoke = simrt.NowNs()
			reqsInOp, dialsInOp = 0, 0
			simrt.Logf("invoke #%d %s %s", i, op.Op, op.SPN)
			var e error
			panicked, frame, msg := engine.Guard(func() {
				switch op.Op {
				case "login":
					e = cl.Login()
				case "affirm":
					e = cl.AffirmLogin()
				case "tgs":
					var t struct {
						c []byte
						k types.EncryptionKey
					}
					tkt, key, err := cl.GetServiceTicket(op.SPN)
					e = err
					t.c, t.k = tkt.EncPart.Cipher, key
					r.Cipher, r.Key, r.KeyType = t.c, key.KeyValue, key.KeyType
				case "cached":
					tkt, key, ok := cl.GetCachedTicket(op.SPN)
					if !ok {
						e = fmt.Errorf("not cached")
					}
					r.Cipher, r.Key, r.KeyType = tkt.EncPart.Cipher, key.KeyValue, key.KeyType
				case "destroy":
					cl.Destroy()
					destroyedAt = simrt.NowNs()
				default:
					r.Skipped = true
				}
			})
			if panicked {
				r.Panic = frame + ": " + msg
				e = fmt.Errorf("panic: %s", r.Panic)
			}
			r.Return = simrt.NowNs()
			r.OK = e == nil
			if e != nil {
				r.Err = e.Error()
				if len(r.Err) > 300 {
					r.Err = r.Err[:300]
				}
			}
			simrt.Logf("return #%d %s %s ok=%v %s", i, op.Op, op.SPN, r.OK, r.Err)
			recs = append(recs, r)
		}
	})
	if late := simrt.WaitTimeout(400*24*time.Hour, done); len(late) > 0 {
		engine.Violate(res, "no-return", map[string]interface{}{"ops_done": len(recs)})
		return
	}
	if done.Panic != nil {
		res.Verdict, res.Harness = "harness-error", fmt.Sprintf("user task panicked: %v\n%s", done.Panic, done.Stack)
		return
	}
	// ---- oracles
	issues := allIssues()
	var reqs []*refkdc.ReqRecord
	for _, r := range realms {
		reqs = append(reqs, kdcs[r].Requests()...)
	}
	sort.SliceStable(reqs, func(i, j int) bool { return reqs[i].At.Before(reqs[j].At) })
	confClass := fmt.Sprintf("cred=%s,preauth=%v/%v,renew=%s,life=%s,fwd=%v,prx=%v,canon=%v,noaddr=%v,chain=%d,cycle=%v", tp.Cred, tp.Policy.RequirePreauth, tp.AssumePreauth,
		tp.Conf.RenewLifetime, tp.Conf.TicketLifetime, tp.Conf.Forwardable, tp.Conf.Proxiable, tp.Conf.Canonicalize, tp.Conf.NoAddresses != nil && !*tp.Conf.NoAddresses == false, tp.Chain, tp.Cycle)
	viol := func(clause string, d interface{}) {
		engine.Violate(res, clause, map[string]interface{}{"config": confClass, "detail": d, "krb5.conf": confText})
	}
	res.Evals = 0
	// (a) what the KDCs received
	noaddr := tp.Conf.NoAddresses == nil || *tp.Conf.NoAddresses
	localAddrs, _ := types.LocalHostAddresses()
	nonces := map[int64]int{}
	lastVerdict := map[int]string{}
	firstWrite := map[string]int64{} // request bytes -> instant of their first transmission to any endpoint
	writesByTask := map[int][]int64{} // instants of every transmission of a task, ascending
	for _, ev := range net.Events() {
		if ev.What == "request" {
			if _, ok := firstWrite[ev.ReqID]; !ok {
				firstWrite[ev.ReqID] = ev.At
			}
			writesByTask[ev.Task] = append(writesByTask[ev.Task], ev.At)
		}
	}
	var hintsAt time.Time // when the KDC first answered an AS request of this client with its pre-authentication hints
	for _, rq := range reqs {
		res.Evals++
		// (one simulated second later every request under construction at that moment has been sent)
		hintsReceived := !hintsAt.IsZero() && rq.At.After(hintsAt.Add(time.Second))

		d := map[string]interface{}{"at_ns": at(rq.At), "task": rq.Task, "realm": rq.Realm, "verdict": rq.Verdict, "notes": rq.Notes}
		if rq.Req == nil {
			viol("request.undecodable", d)
			lastVerdict[rq.Task] = rq.Verdict
			continue
		}
		q := rq.Req
		nonces[q.Nonce]++
		if len(q.Lax) > 0 {
			d["lax"] = q.Lax
			viol("request.not-strict-der", d)
		}
		as := q.MsgType == rk.MsgASReq
		name := "tgsreq"
		want := tgsIDs
		if as {
			name, want = "asreq", tktIDs
		}
		if !eq32(q.Etypes, want) {
			d["etypes"], d["configured"] = q.Etypes, want
			viol(name+".etypes", d)
		}
		for _, f := range []struct {
			bit  int
			want bool
			n    string
		}{{rk.FlagForwardable, tp.Conf.Forwardable, "forwardable"}, {rk.FlagProxiable, tp.Conf.Proxiable, "proxiable"}, {rk.FlagCanonicalize, tp.Conf.Canonicalize, "canonicalize"}} {
			if (q.Options&rk.Bit(f.bit) != 0) != f.want {
				d["options"] = fmt.Sprintf("%08x", q.Options)
				viol(name+".options."+f.n, d)
			}
		}
		renew := q.Options&rk.Bit(rk.FlagRenew) != 0
		if as && (q.Options&rk.Bit(rk.FlagRenewable) != 0) != (renewLife != 0) {
			viol("asreq.options.renewable", d)
		}
		if as && renew {
			viol("asreq.options.renew-set", d)
		}
		// the times in a request are those of its construction: a request that reaches the KDC only
		// after transmissions to other servers or over the other transport have timed out (an outage)
		// is older by what those attempts took
		tol := 3 * time.Second
		if fw, ok := firstWrite[world.ReqID(rq.Raw)]; ok && at(rq.At) >= fw {
			// (and a request that follows another in the same exchange - the pre-authenticated second
			// AS-REQ, the next referral hop - keeps the times of the exchange's beginning: the chain of
			// this task's transmissions is followed back while they are less than two time-outs apart)
			evs := writesByTask[rq.Task]
			i := sort.Search(len(evs), func(i int) bool { return evs[i] >= fw })
			for i > 0 && fw-evs[i-1] < int64(11*time.Second) && at(rq.At)-evs[i-1] < int64(120*time.Second) {
				i--
				fw = evs[i]
			}
			tol += time.Duration(at(rq.At) - fw)
			if at(rq.At)-fw > int64(time.Second) {
				res.Stats["requests_delivered_after_failed_transmissions"]++
			}
		}
		if x := q.Till.Sub(rq.At.Add(tktLife)); x > tol || x < -tol {
			d["till"], d["expected"], d["tolerance_ns"] = q.Till, rq.At.Add(tktLife), int64(tol)
			viol(name+".till", d)
		}
		if renewLife != 0 && !renew {
			res.Probes["renewable-requested"]++
			if q.RTime == nil {
				viol(name+".rtime-missing", d)
			} else if x := q.RTime.Sub(rq.At.Add(renewLife)); x > tol || x < -tol {
				d["rtime"], d["expected"] = *q.RTime, rq.At.Add(renewLife)
				viol(name+".rtime", d)
			}
		}
		if renewLife == 0 && q.RTime != nil && !renew {
			viol(name+".rtime-unrequested", d)
		}
		if noaddr && len(q.Addresses) > 0 {
			viol(name+".addresses-sent-despite-noaddresses", d)
		}
		if !noaddr && len(q.Addresses) == 0 && len(localAddrs) > 0 {
			viol(name+".addresses-missing", d)
		}
		if as {
			if q.CName == nil || q.CName.String() != "alice" || q.Realm != "SIM.TEST" {
				viol("asreq.client", d)
			}
			if rq.PAEtype != 0 {
				// the key of the encrypted timestamp is of a type the request itself asks for (the
				// configured ticket etypes): anything else the KDC need not even have a key for
				listed := false
				for _, e := range q.Etypes {
					listed = listed || e == rq.PAEtype
				}
				if !listed {
					d["pa_etype"] = rq.PAEtype
					viol("preauth.etype-not-among-the-requested", d)
				}
			}
			if rq.PAKeyOK != nil {
				if !*rq.PAKeyOK {
					// an encrypted timestamp sent up front (no hints at hand yet) may use the wrong key;
					// one sent in answer to the KDC's hints may not
					if lastVerdict[rq.Task] == "error:25" || lastVerdict[rq.Task] == "error:24" {
						viol("preauth.key-after-hints", d)
					} else if hintsReceived && tp.Cred == "password" {
						// the KDC has told this client before how the key is derived: every wrong
						// timestamp counts against the account at the KDC
						viol("preauth.key-wrong-although-hints-were-received-earlier", d)
					} else {
						res.Stats["optimistic_preauth_wrong_key"]++
					}
				} else if rq.PATime == nil {
					viol("preauth.timestamp-undecodable", d)
				} else if x := rq.PATime.Sub(rq.At); x > tol || x < -tol {
					d["patimestamp"] = *rq.PATime
					viol("preauth.time", d)
				}
				if tp.Salt != "" && *rq.PAKeyOK {
					res.Probes["preauth-with-nondefault-salt"]++
				}
			}
		} else {
			if rq.TGTCipher != nil && refkdc.FindIssue(issues, rq.TGTCipher) == nil {
				viol("tgsreq.tgt-not-in-log", d)
			}
			// only the realm that issued a ticket can renew it
			if rq.Renew && rq.HdrRealm != "" && rq.HdrRealm != rq.Realm {
				d["ticket"], d["issued_by"], d["sent_to"] = rq.HdrSName, rq.HdrRealm, rq.Realm
				viol("tgsreq.renew-sent-to-non-issuer", d)
			}
			for _, n := range rq.Notes {
				switch {
				case strings.Contains(n, "checksum over KDC-REQ-BODY"):
					viol("tgsreq.checksum", d)
				case strings.Contains(n, "authenticator does not decrypt"):
					viol("tgsreq.authenticator-key-or-usage", d)
				case strings.Contains(n, "authenticator client does not match"):
					if destroyedAt >= 0 && at(rq.At) >= destroyedAt {
						// a request sent after Destroy under a session that a re-login in flight at the
						// time of the Destroy installed afterwards: it names the blank credentials
						viol("tgsreq.authenticator-client|after-destroy", d)
					} else {
						viol("tgsreq.authenticator-client", d)
					}
				case strings.Contains(n, "authenticator time off"):
					viol("tgsreq.authenticator-time", d)
				case strings.Contains(n, "undecodable"), strings.Contains(n, "without PA-TGS-REQ"), strings.Contains(n, "no checksum"):
					viol("tgsreq.malformed", d)
				}
			}
		}
		// refusals by a healthy KDC are a statistic: what the statement promises is judged on the
		// outcome of the operations and on the content of the requests
		if strings.HasPrefix(rq.Verdict, "error:") {
			res.Stats["kdc_refused_"+strings.TrimPrefix(rq.Verdict, "error:")]++
		}
		lastVerdict[rq.Task] = rq.Verdict
		replyLost := false // the request reached the KDC during an outage of the kind that loses the replies
		for _, o := range outages {
			replyLost = replyLost || (at(rq.At) >= o[0] && (o[1] < 0 || at(rq.At) < o[1]+int64(time.Second)))
		}
		if replyLost {
			lastVerdict[rq.Task] = "reply-lost"
			res.Stats["kdc_replies_lost_in_outage"]++
		}
		if rq.Req.MsgType == rk.MsgASReq && rq.Realm == "SIM.TEST" && (rq.Verdict == "error:25" || rq.Verdict == "error:24") && hintsAt.IsZero() && !replyLost {
			hintsAt = rq.At
		}
	}
	for _, c := range nonces {
		if c > 1 {
			res.Stats["nonce_reused"] += int64(c - 1)
		}
	}
	for _, o := range outages {
		up := o[1]
		if up < 0 {
			up = simrt.NowNs()
		}
		for _, is := range issues {
			if is.SName != "krbtgt/SIM.TEST" || is.Realm != "SIM.TEST" || at(is.At) > o[0] {
				continue
			}
			if e := at(is.End); e >= o[0] && e < up {
				res.Probes["tgt-ended-during-outage"]++
			}
			if rp := at(is.At) + int64(is.End.Sub(is.At))*5/6; rp >= o[0] && rp < up {
				res.Probes["renewal-point-passed-during-outage"]++
			}
		}
	}
	// (b) what the caller got
	var seq []string
	prevEnd := map[string]time.Time{}
	for _, r := range recs {
		if r.Skipped {
			continue
		}
		res.Evals++
		afterDestroy := destroyedAt >= 0 && r.Invoke >= destroyedAt
		if afterDestroy && r.Op != "destroy" {
			res.Probes["destroy-then-use"]++
		}
		// an operation that overlaps a network outage may fail (it must still never return a wrong
		// ticket); one invoked after the outage has ended is owed everything again
		duringOutage, afterOutage := false, false
		for _, o := range outages {
			if r.Return >= o[0] && (o[1] < 0 || r.Invoke < o[1]) {
				duringOutage = true
			}
			if o[1] >= 0 && r.Invoke >= o[1] {
				afterOutage = true
			}
		}
		if duringOutage {
			res.Probes["operation-during-outage"]++
			if !r.OK {
				res.Stats["failed_during_outage"]++
			}
			afterDestroy = afterDestroy || !r.OK // judged like an operation that is owed nothing, when it failed
		} else if afterOutage && r.Op != "destroy" {
			res.Probes["operation-after-outage"]++
		}
		nreq, ntgs := 0, 0
		for _, rq := range reqs {
			if rq.Task == 1 && at(rq.At) >= r.Invoke && at(rq.At) <= r.Return {
				nreq++
				if rq.Req != nil && rq.Req.MsgType == rk.MsgTGSReq {
					ntgs++
				}
			}
		}
		far := r.SPN == "HTTP/far.sim.test"
		out := "ok"
		if !r.OK {
			out = "fail"
		}
		seq = append(seq, fmt.Sprintf("%s:%s:%s:%d", r.Op, strings.SplitN(r.SPN, "/", 2)[0], out, nreq))
		if r.Panic != "" {
			// whatever the operation was owed, it has to end with a result or an error
			viol("operation-panicked|"+r.Op+"|"+strings.SplitN(r.Panic, ":", 2)[0], r)
		}
		if r.Return-r.Invoke > int64(time.Hour) {
			viol("operation-took-more-than-a-simulated-hour|"+r.Op, r)
		}
		if ntgs > 16 {
			viol("referral.unbounded", map[string]interface{}{"op": r, "tgs_requests": ntgs})
		}
		if far && tp.Chain >= 3 {
			res.Probes["referral-chain-3plus"]++
		}
		if far && tp.Cycle {
			res.Probes["referral-cycle"]++
		}
		switch r.Op {
		case "login", "affirm":
			if tp.Cred == "ccache" && !r.OK {
				// a client made from a credential cache has nothing to log in with
				res.Stats["ccache_login_refused"]++
				continue
			}
			if !r.OK && !afterDestroy {
				viol("healthy-kdc.failed|"+r.Op, r)
			}
			if r.OK && !afterDestroy {
				// a TGT for the client's realm is in the log
				found := false
				for _, is := range issues {
					if is.SName == "krbtgt/SIM.TEST" && is.Client == "alice" && at(is.At) <= r.Return {
						found = true
					}
				}
				if !found {
					viol("login.no-tgt-issued", r)
				}
			}
		case "tgs", "cached":
			if !r.OK {
				// chains up to 5 referrals lie inside any reasonable bound and must be followed to
				// their end; longer ones and cycles may be cut off (the library's bound is not mirrored)
				open := afterDestroy || r.Op == "cached" || (far && (tp.Chain > 5 || tp.Cycle))
				// a TGT that was still valid when the client looked at it and had ended by the time the
				// request reached a KDC without allowance for expired tickets: the instant of its end lies
				// inside the operation
				for _, is := range issues {
					if strings.HasPrefix(is.SName, "krbtgt/") && at(is.At) <= r.Invoke {
						// (by the client's clock it ends at End, by the KDC's at End minus the KDC's lead)
						if at(is.End) >= r.Invoke && at(is.End)-int64(tp.Policy.ClockOffset) <= r.Return && strings.Contains(r.Err, "KRB_AP_ERR_TKT_EXPIRED") {
							open = true
							res.Stats["tgt_ended_while_the_request_was_under_way"]++
						}
					}
				}
				if tp.Cred == "ccache" {
					// without credentials the TGT of the cache cannot be replaced: from the last sixth of
					// its life on (where the library tries to refresh it) requests may fail
					lastSixth := false // judged on the newest TGT issued before the call
					for _, is := range issues {
						if is.SName == "krbtgt/SIM.TEST" && is.Realm == "SIM.TEST" && at(is.At) <= r.Invoke {
							lost := false // issued during an outage that loses the replies: the client never held it
							for _, o := range outages {
								lost = lost || (at(is.At) >= o[0] && (o[1] < 0 || at(is.At) < o[1]))
							}
							if lost {
								continue
							}
							lastSixth = r.Return >= at(is.End)-int64(is.End.Sub(is.AuthTime))/6 // as the library reckons: a sixth of the ticket's life before its end
						}
					}
					open = open || lastSixth
				}
				if !open {
					why := "own-realm"
					if far {
						why = fmt.Sprintf("referral-chain-%d", tp.Chain)
					}
					viol("healthy-kdc.failed|tgs|"+why, r)
				}
				continue
			}
			is := refkdc.FindIssue(issues, r.Cipher)
			if is == nil {
				viol("returned.not-in-log", r)
				continue
			}
			if is.SName != r.SPN || is.Kind == "referral" {
				viol("returned.wrong-spn", map[string]interface{}{"op": r, "issued_for": is.SName})
			}
			if is.Client != "alice" || is.CRealm != "SIM.TEST" {
				viol("returned.wrong-client", r)
			}
			if string(is.SessionKey.Value) != string(r.Key) || is.SessionKey.Etype != r.KeyType {
				viol("returned.key-not-issued-with-ticket", map[string]interface{}{"op": r, "serial": is.Serial})
			}
			// valid at some instant of the call.  The times are the KDC's: a ticket issued by a KDC whose
			// clock is ahead starts, by the client's clock, up to that much later (that is what the
			// permitted skew is for; the end of the validity period is judged strictly)
			startSlack := int64(0)
			if tp.Policy.ClockOffset > 0 {
				startSlack = int64(tp.Policy.ClockOffset)
			}
			if at(is.End) < r.Invoke || at(is.Start) > r.Return+startSlack {
				viol("returned.not-valid-now", map[string]interface{}{"op": r, "start_ns": at(is.Start), "end_ns": at(is.End), "serial": is.Serial})
			}
			if nreq == 0 {
				res.Probes["served-from-cache"]++
			} else if pe, ok := prevEnd[r.SPN]; ok && at(pe) < r.Invoke {
				res.Probes["requested-afresh-after-expiry"]++
			}
			prevEnd[r.SPN] = is.End
		}
	}
	for _, is := range issues {
		if is.Kind == "renew" && is.Task != 1 && is.SName == "krbtgt/SIM.TEST" {
			res.Probes["tgt-renewed-by-library"]++
		}
		if is.Kind == "as" && is.Task != 1 {
			res.Probes["relogin-after-tgt-expiry"]++
		}
	}
	for k, v := range net.Fired {
		res.Faults[k] += v
	}
	if res.Evals == 0 {
		res.Evals = 1
	}
	res.Nontrivial = len(reqs) > 2
	for _, op := range tp.Ops {
		switch op.Op {
		case "sleep":
			res.Faults["clock-advanced"]++
		case "sleep_to":
			res.Faults["clock-placed-at-"+op.Ref]++
		case "destroy":
			res.Faults["destroy"]++
		}
	}
	for k, v := range res.Stats {
		if strings.HasPrefix(k, "kdc_refused_") {
			res.Faults["kdc-refusal-"+strings.TrimPrefix(k, "kdc_refused_")] += int(v)
		}
	}
	if tp.Chain > 0 {
		res.Faults["referral"]++
	}
	res.Class = confClass + "|" + strings.Join(seq, ",")
	if len(res.Class) > 400 {
		res.Class = res.Class[:400] + core.HashStrings(seq)
	}
	res.Stats["requests"] = int64(len(reqs))
	res.Stats["issues"] = int64(len(issues))
}
