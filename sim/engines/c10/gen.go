// Package c10 is the engine for property C10: tickets obtained and cached by the client are the
// right ones and still valid.  Real: one client.Client built from a krb5.conf text parsed by the
// real parser; Login, AffirmLogin, GetServiceTicket, GetCachedTicket, Destroy, the session
// auto-renewal goroutines, ticket cache, request construction, network code.  Simulated: 1-3
// realms of the reference KDC with trust paths and referral chains, KDC policy, a healthy network
// (latency only), the clock over horizons from minutes to several renewable lifetimes.
package c10

import (
	"time"
	"encoding/json"
	"fmt"

	"verifsim/core"
	"verifsim/engine"
	"verifsim/refkdc"
	"verifsim/world/gk"
)

type Op struct {
	Op    string `json:"op"` // login | affirm | tgs | cached | sleep | sleep_to | destroy | net_down | net_up
	Fault string `json:"fault,omitempty"` // net_down: refuse | silent | close (request processed, reply lost) | close-mid (reply cut inside its first bytes)
	SPN   string `json:"spn,omitempty"`
	Ns    int64  `json:"ns,omitempty"`    // sleep: duration
	Ref   string `json:"ref,omitempty"`   // sleep_to: tgt_end | tgt_renew_point | tgt_renew_till | tkt_end (of SPN)
	Delta int64  `json:"delta,omitempty"` // sleep_to: offset from the reference instant
}

type Tape struct {
	Engine        string        `json:"engine"`
	RunSeed       uint64        `json:"run_seed"`
	Conf          gk.ConfModel  `json:"conf"`
	Cred          string        `json:"cred"` // keytab | password
	MergedKt      int           `json:"merged_keytab,omitempty"` // keytab: bits say which foreign and older entries the file also holds (gk.UserKeytabMerged)
	AssumePreauth bool          `json:"assume_preauth,omitempty"`
	Password      string        `json:"password,omitempty"`     // the user's password ("" = an ASCII one)
	OneKeyOnly    bool          `json:"one_key_only,omitempty"` // the keytab user has a key for the first configured ticket etype only (an aes256-only account, say)
	PreauthPref   int           `json:"preauth_pref,omitempty"` // preferred_preauth_types in krb5.conf (0 = the first ticket etype)
	UserKvno      int           `json:"user_kvno,omitempty"`    // key version of the keytab user (0 = 5); beyond 8 bits the keytab carries it in its 32-bit trailer
	DisableFAST   bool          `json:"disable_fast,omitempty"`
	Policy        refkdc.Policy `json:"policy"`
	Salt          string        `json:"salt,omitempty"`
	Iter          int           `json:"iter,omitempty"`
	Chain         int           `json:"chain"` // referral chain length for HTTP/far.* (0 = no foreign service)
	Cycle         bool          `json:"cycle,omitempty"`
	Ops           []Op          `json:"ops"`
}

var etypes = []int{18, 17, 19, 20, 16, 23}

func Meta() core.Meta {
	return core.Meta{
		Engine: "c10", Property: "C10", Level: "exploration",
		Rule:        "case = one run: a real client configured from a generated krb5.conf (etype lists, forwardable/proxiable/canonicalize, renew_lifetime, ticket_lifetime, noaddresses, transport) with a keytab or password credential or a credential cache written by the reference implementation performs 3-30 operations (login, service-ticket requests for repeated and new SPNs in its own and in foreign realms, waits that land before/at/after ticket and TGT end times, renewal points and renew-till, destroy) against reference KDCs with a drawn policy (pre-authentication and hint layout, salts and iteration counts, maximum lives, optional starttime, address copying) and referral chains of length 0-8 or a cycle; distinct = distinct (configuration class, policy class, operation/outcome sequence); non-trivial = at least one ticket request after a wait, a renewal, a referral or a pre-authentication round trip",
		SeededQuick: 2500, SeededThorough: 150000,
		WorkloadProbes: []string{"served-from-cache", "requested-afresh-after-expiry", "tgt-renewed-by-library", "relogin-after-tgt-expiry", "referral-chain-3plus", "referral-cycle", "preauth-with-nondefault-salt", "renewable-requested", "wait-lands-within-1s-of-end", "destroy-then-use", "credential-cache-client", "password-outside-ascii", "etype-lists-separated-by-commas-or-tabs", "keytab-shared-with-other-principals-or-older-keys", "kdc-clock-differs-from-the-clients", "operation-during-outage", "operation-after-outage", "tgt-ended-during-outage", "renewal-point-passed-during-outage"},
		Components: map[string]string{
			"client.Login/AffirmLogin/GetServiceTicket/GetCachedTicket/Destroy, session auto-renewal goroutines, ticket cache, NewASReq/NewTGSReq/setPAData, network code, krb5.conf parser, keytab parser": "real",
			"sync in client/session.go, client/cache.go": "shim (seeded yields at every lock boundary)",
			"net in client/network.go":                   "shim (healthy simulated network, 1ms latency)",
			"KDCs (1-9 realms), issue log":               "stub: refkdc",
			"time":                                       "real package on the synctest fake clock (days per run)",
			"types.LocalHostAddresses":                   "real (the sandbox's interfaces, constant)",
		},
		Assumptions: []string{
			"after Destroy the client has no credentials: failures of later operations are not judged",
			"a referral chain longer than 2 may end in an error; it must end within 16 TGS requests",
			"request times (till, rtime, PA timestamp) are compared with the KDC's clock at receipt with a tolerance of the exchange's own duration plus 2s",
			"nonce reuse is reported as a statistic only",
		},
		ChildTimeoutS: 180,
	}
}

func dur(r *core.Rng, choices ...string) string { return choices[r.Intn(len(choices))] }

func pickEtypes(r *core.Rng) []string {
	n := r.PickInt(1, 1, 2, 3, 4, 6)
	p := r.Perm(len(etypes))
	var out []string
	for i := 0; i < n; i++ {
		out = append(out, gk.EtypeNames[etypes[p[i]]])
	}
	return out
}

func Gen(caseID, tier string) (json.RawMessage, error) {
	kind, n, err := engine.ParseCase(caseID)
	if err != nil {
		return nil, err
	}
	if kind != "seed" {
		return nil, fmt.Errorf("c10 has no sweep")
	}
	r := core.NewRng(n).Derive("c10")
	tp := Tape{Engine: "c10", RunSeed: n, Cred: r.Pick("keytab", "keytab", "password", "keytab", "password", "ccache")}
	c := &tp.Conf
	c.DefaultRealm = "SIM.TEST"
	c.TktEtypes = pickEtypes(r)
	c.TGSEtypes = pickEtypes(r)
	if tp.Cred == "password" {
		// keep the RFC 8009 types (32768 PBKDF2 rounds per derivation) to a minority of password runs
		if !r.Chance(1, 5) {
			var f []string
			for _, e := range c.TktEtypes {
				if e != gk.EtypeNames[19] && e != gk.EtypeNames[20] {
					f = append(f, e)
				}
			}
			if len(f) == 0 {
				f = []string{gk.EtypeNames[r.PickInt(17, 18, 23, 16)]}
			}
			c.TktEtypes = f
		}
	}
	c.Forwardable, c.Proxiable, c.Canonicalize = r.Chance(1, 2), r.Chance(1, 3), r.Chance(1, 3)
	if r.Chance(1, 2) {
		na := r.Chance(1, 2)
		c.NoAddresses = &na
	}
	c.RenewLifetime = dur(r, "", "", "1h", "7d", "2d")
	c.TicketLifetime = dur(r, "600", "10h", "1d", "0h20m", "")
	if r.Chance(1, 4) {
		c.UDPLimit = r.PickInt(1, 30, 1465)
	}
	c.Realms = map[string][]string{"SIM.TEST": {"10.0.0.1:88"}}
	if r.Chance(1, 3) {
		c.Realms["SIM.TEST"] = append(c.Realms["SIM.TEST"], "10.0.0.2:88")
	}
	c.DomainRealm = map[string]string{".sim.test": "SIM.TEST"}
	tp.AssumePreauth = r.Chance(1, 5)
	if r.Chance(1, 5) {
		// krb5.conf separates the names of encryption types by commas or whitespace
		c.EtypeSep = r.Pick(", ", ",", " ,  ", "\t")
	}
	if tp.Cred == "password" && r.Chance(1, 4) {
		tp.Password = r.Pick("p\u00e4ssw\u00f6rd-Zt5q", "\u043f\u0430\u0440\u043e\u043b\u044c123", "T\u014dky\u014d\u20ac-Lm8R", "clef-\U0001d11e-8RkV")
	}
	if r.Chance(1, 3) {
		tp.UserKvno = r.PickInt(1, 255, 256, 300, 65537)
	}
	if tp.Cred == "keytab" && r.Chance(1, 3) {
		// the account has one key only, and krb5.conf prefers another type for pre-authentication:
		// what the client has to use is what it negotiated with the KDC
		tp.OneKeyOnly = true
		tp.PreauthPref = r.PickInt(17, 18, 23, 16, 19, 20)
	}
	if tp.Cred == "keytab" && r.Chance(1, 3) {
		// the keytab file is shared: other principals' entries and the user's older keys stand next to the user's
		tp.MergedKt = r.Range(1, 31)
	}
	tp.DisableFAST = r.Chance(1, 3)
	p := &tp.Policy
	p.RequirePreauth = r.Chance(1, 2)
	if p.RequirePreauth || tp.AssumePreauth {
		all := []string{"etype-info2", "etype-info", "pw-salt", "enc-timestamp"}
		pm := r.Perm(4)
		k := r.Range(1, 4)
		has2 := false
		for i := 0; i < k; i++ {
			p.Hints = append(p.Hints, all[pm[i]])
			has2 = has2 || all[pm[i]] == "etype-info2"
		}
		if !has2 {
			// a conformant KDC always sends ETYPE-INFO2 to an RFC 4120 client
			p.Hints = append(p.Hints, "etype-info2")
		}
	}
	p.HintsInASRep = r.Chance(1, 2)
	p.MaxLifeS = int64(r.PickInt(0, 0, 300, 3600, 36000))
	p.MaxRenewS = int64(r.PickInt(0, 0, 1800, 86400))
	p.CopyAddresses = r.Chance(1, 2)
	p.OmitStartTime = r.Chance(1, 4)
	p.KvnoInReply = r.Chance(1, 2)
	p.TktEtype = r.PickInt(0, 18, 17, 20, 23)
	p.ExpiryGraceS = int64(r.PickInt(0, 300))
	if r.Chance(1, 4) {
		// the KDC's clock is not the client's: ahead or behind by less than the permitted skew (all realms alike)
		p.ClockOffset = time.Duration(r.PickInt(1, -1, 60, -60, 240, -240, 298, -298)) * time.Second // (Kerberos times are cut to whole seconds: 299 s of offset can show as 300.001 s)
	}
	if p.ClockOffset != 0 {
		// RFC 4120 3.2.3: a ticket is refused as expired only when it is so by more than the permitted
		// skew; a KDC without that allowance is conformant only as long as all clocks agree
		p.ExpiryGraceS = 300
	}
	p.FASTNegotiation = r.Chance(1, 2)
	p.TerseErrors = r.Chance(1, 4)
	if r.Chance(1, 4) {
		p.ErrorSName = r.Pick("empty", "krbtgt")
	}
	p.TerseASRep = r.Chance(1, 4)
	p.OmitDefaultSalt = r.Chance(1, 4)
	if tp.Cred == "password" && p.RequirePreauth && r.Chance(1, 2) {
		tp.Salt = fmt.Sprintf("Salt%d.realm", r.Intn(1000))
		if r.Chance(1, 2) {
			tp.Iter = r.PickInt(1, 100, 4095, 4097, 5000)
		}
	}
	// topology
	switch r.Intn(8) {
	case 0, 1, 2:
		tp.Chain = 0
	case 3, 4:
		tp.Chain = 1
	case 5:
		tp.Chain = 2
	case 6:
		tp.Chain = r.Range(3, 8)
	default:
		tp.Chain = r.Range(2, 4)
		tp.Cycle = true
	}
	if tp.Chain >= 2 && r.Chance(1, 2) {
		p.LenientAuthCRealm = true
	}
	// operations
	spns := []string{"HTTP/host.sim.test", "HTTP/web.sim.test", "cifs/files.sim.test"}
	if tp.Chain > 0 {
		spns = append(spns, "HTTP/far.sim.test")
	}
	nops := r.Range(3, 30)
	if r.Chance(1, 3) {
		nops = r.Range(3, 8)
	}
	tp.Ops = append(tp.Ops, Op{Op: r.Pick("login", "login", "affirm", "tgs")})
	if tp.Ops[0].Op == "tgs" {
		tp.Ops[0].SPN = spns[0]
	}
	destroyed := false
	for len(tp.Ops) < nops {
		switch x := r.Intn(20); {
		case x < 8:
			o := Op{Op: "tgs", SPN: spns[r.Intn(len(spns))]}
			if tp.Chain > 0 && r.Chance(1, 3) {
				o.SPN = "HTTP/far.sim.test" // repeated requests along the referral chain (sessions for its realms are held by then)
			}
			tp.Ops = append(tp.Ops, o)
		case x < 10:
			tp.Ops = append(tp.Ops, Op{Op: "cached", SPN: spns[r.Intn(len(spns))]})
		case x < 13:
			var ns int64
			switch r.Intn(5) {
			case 0:
				ns = int64(r.Range(1, 999)) * 1_000_000
			case 1:
				ns = int64(r.Range(1, 600)) * 1_000_000_000
			case 2:
				ns = int64(r.Range(1, 12)) * 3600_000_000_000
			case 3:
				ns = int64(r.Range(1, 3)) * 86400_000_000_000
			default:
				ns = int64(r.Range(1, 120)) * 60_000_000_000
			}
			tp.Ops = append(tp.Ops, Op{Op: "sleep", Ns: ns})
		case x < 17:
			ref := r.Pick("tgt_end", "tgt_end", "tgt_renew_point", "tgt_renew_till", "tkt_end", "tkt_end")
			delta := []int64{-2_000_000_000, -1_000_000_000, -500_000_000, -1, 0, 1, 500_000_000, 1_000_000_000, 2_000_000_000, 60_000_000_000, -60_000_000_000}[r.Intn(11)]
			st := Op{Op: "sleep_to", Ref: ref, SPN: spns[r.Intn(len(spns))], Delta: delta}
			tp.Ops = append(tp.Ops, st)
			if ref == "tkt_end" && r.Chance(2, 3) {
				// ask for that very ticket again around its end (inside the renewable window, and
				// inside the allowance some KDCs give an expired ticket, the library renews it)
				tp.Ops = append(tp.Ops, Op{Op: "tgs", SPN: st.SPN})
			}
		case x < 18:
			tp.Ops = append(tp.Ops, Op{Op: r.Pick("login", "affirm")})
		case x < 19 && !destroyed && len(tp.Ops) > 3:
			tp.Ops = append(tp.Ops, Op{Op: "destroy"})
			destroyed = true
		default:
			tp.Ops = append(tp.Ops, Op{Op: "tgs", SPN: spns[r.Intn(len(spns))]})
		}
	}
	// network outage: for a stretch of the history no server can be reached (refused, silent, or
	// the request is processed and the reply lost); the stretch tends to contain the TGT's renewal
	// point or end, so that the library's own renewal runs into it; afterwards the network is
	// healthy again and everything the statement promises is due again
	if r.Chance(1, 4) && len(tp.Ops) >= 2 {
		i := r.Range(1, len(tp.Ops))
		down := []Op{{Op: "net_down", Fault: r.Pick("refuse", "refuse", "silent", "close", "close-mid")}}
		if r.Chance(2, 3) {
			ref := r.Pick("tgt_end", "tgt_end", "tgt_renew_point", "tgt_renew_till", "tkt_end")
			down = append(down, Op{Op: "sleep_to", Ref: ref, SPN: spns[r.Intn(len(spns))], Delta: []int64{1, 1_000_000_000, 60_000_000_000, 600_000_000_000, -1_000_000_000}[r.Intn(5)]})
		}
		if r.Chance(1, 2) {
			down = append(down, Op{Op: r.Pick("tgs", "tgs", "login", "affirm"), SPN: spns[r.Intn(len(spns))]})
		}
		k := i + r.Intn(4)
		if k > len(tp.Ops) {
			k = len(tp.Ops)
		}
		var ops []Op
		ops = append(ops, tp.Ops[:i]...)
		ops = append(ops, down...)
		ops = append(ops, tp.Ops[i:k]...)
		ops = append(ops, Op{Op: "net_up"})
		// what was promised before the outage is due again after it
		ops = append(ops, Op{Op: "tgs", SPN: spns[r.Intn(len(spns))]})
		ops = append(ops, tp.Ops[k:]...)
		tp.Ops = ops
	}
	// bound the simulated horizon: every re-login starts a new library goroutine, and the task table
	// is finite (about 150 ticket lifetimes fit comfortably)
	life := int64(86400)
	switch c.TicketLifetime {
	case "600":
		life = 600
	case "0h20m":
		life = 1200
	case "10h":
		life = 36000
	}
	if p.MaxLifeS != 0 && p.MaxLifeS < life {
		life = p.MaxLifeS
	}
	budget := 150 * life * 1_000_000_000
	for i := range tp.Ops {
		if tp.Ops[i].Op == "sleep" {
			if tp.Ops[i].Ns > budget/4 {
				tp.Ops[i].Ns = budget / 4
			}
			budget -= tp.Ops[i].Ns
			if budget < 0 {
				tp.Ops[i].Ns = 1_000_000
			}
		}
	}
	return core.MustJSON(tp), nil
}
