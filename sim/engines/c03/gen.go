// Package c03 is the engine for property C03: the SPNEGO HTTP wrapper serves the inner handler
// only to authenticated requests.  Real: spnego.SPNEGOKRB5Authenticate and everything below it
// (header parsing, SPNEGO / KRB5 token decoders and verifiers, AcceptSecContext, VerifyAPREQ,
// credentials gob marshal/unmarshal, session handling).  Simulated: the reference KDC and
// reference SPNEGO initiators minting tokens in every framing, the adversarial network damaging
// headers, user agents with cookie jars, the application's session store with its faults, the clock.
package c03

import (
	"encoding/json"
	"fmt"

	"verifsim/core"
	"verifsim/engine"
	"verifsim/world"
)

type Req struct {
	ThinkNs    int64         `json:"think_ns,omitempty"`
	Agent      int           `json:"agent,omitempty"`
	Header     string        `json:"header"`            // none | token | garbage | basic | empty
	Framing    string        `json:"framing,omitempty"` // init-krb5 | init-ms | init-ntlm-first | init-empty | init-foreign | init-nomechtoken | resp | resp-nomech | resp-foreign | raw
	Mech       string        `json:"mech,omitempty"`    // apreq | aprep | krberror
	Spec       world.ReqSpec `json:"spec"`
	Mangle     string        `json:"mangle,omitempty"` // b64-break | trunc | subst | scheme-lower | no-space
	MangleArg  int64         `json:"mangle_arg,omitempty"`
	ReplayOf   int           `json:"replay_of"`             // -1, else resend the header of request #k
	Cookie     string        `json:"cookie,omitempty"`      // "" = the agent's jar | none | forged | other
	StoreFault string        `json:"store_fault,omitempty"` // get-error | get-error-stale | new-error | lost | truncated
	API        string        `json:"api,omitempty"`         // "" = HTTP | accept | krb5token | neginit | negresp
	Overlap    bool          `json:"overlap,omitempty"`     // another user's complete request is served while this one waits in its session look-up
}

type Tape struct {
	Engine     string                `json:"engine"`
	RunSeed    uint64                `json:"run_seed"`
	SessionMgr bool                  `json:"session_mgr"`
	Logger     bool                  `json:"logger"`
	Settings   world.ServiceSettings `json:"settings"`
	Reqs       []Req                 `json:"reqs"`
	// StoreKeepsSlice: the session store keeps the slice it is handed (no copy)
	StoreKeepsSlice bool `json:"store_keeps_slice,omitempty"`
}

var framings = []string{"init-krb5", "init-ms", "init-ntlm-first", "init-empty", "init-foreign", "init-nomechtoken", "resp", "resp-nomech", "resp-foreign", "resp-notoken-completed", "resp-notoken-incomplete", "raw"}
var etypes = []int{18, 17, 19, 20, 16, 23}
var defects = []string{"wrong-key", "wrong-kvno-label", "wrong-realm-label", "wrong-sname-label", "ticket-usage", "auth-usage-7", "auth-wrong-key", "flag-invalid",
	"tkt-flip", "tkt-trunc", "tkt-forged-plain-appended", "tkt-extra-optionals", "auth-flip", "auth-trunc", "cname-mismatch", "cname-extra-component", "cname-fewer-components", "cname-empty", "crealm-mismatch", "t-end", "t-start", "t-ctime-old", "t-ctime-future"}

func Meta() core.Meta {
	nsweep := len(framings)*3*2 + len(defects)*4 + 40
	return core.Meta{
		Engine: "c03", Property: "C03", Level: "exploration",
		Rule:       "case = one run: a handler wrapped by SPNEGOKRB5Authenticate (with or without session manager and logger, service settings from the tape) receives 1-8 HTTP requests from 1-3 user agents: no header, foreign schemes, garbage, and Negotiate tokens in every framing (NegTokenInit with KRB5 / MS-legacy / NTLM-first / empty / foreign mech lists, without mech token, NegTokenResp, raw KRB5) carrying a valid or defective AP-REQ, an AP-REP or a KRB-ERROR, optionally damaged in transit (base64, truncation, byte substitution, scheme), replayed, with own / forged / stolen / no cookies, while the session store fails (get error, new error, lost or truncated value) and tickets expire; a share of runs calls the verification APIs directly; distinct = distinct (settings, per-request (header kind, framing, mech, defects, mangle, cookie, store fault) and outcome) sequence; non-trivial = some request carried a token or a cookie",
		SweepQuick: nsweep, SweepThorough: nsweep * len(etypes),
		SeededQuick: 4000, SeededThorough: 300000,
		WorkloadProbes: []string{"valid-token", "defective-token", "krb-error-mech-token", "ap-rep-mech-token", "empty-mech-list", "foreign-mech-list", "header-damaged-in-transit", "header-replayed", "own-cookie", "forged-cookie", "store-get-failed", "store-new-failed", "stored-value-lost-or-truncated", "ticket-expired-between-requests", "api-called-directly", "overlapping-request-served"},
		Components: map[string]string{
			"spnego.SPNEGOKRB5Authenticate, getAuthorizationNegotiationHeaderAsSPNEGOToken, SPNEGOToken/KRB5Token/NegTokenInit/NegTokenResp Unmarshal+Verify, SPNEGO.AcceptSecContext, service.VerifyAPREQ, credentials Marshal/Unmarshal, goidentity context": "real",
			"net/http (request, header canonicalisation), httptest.ResponseRecorder, encoding/gob, encoding/base64":                                                                                                                                            "real",
			"KDC and SPNEGO initiators, attacker on the path": "stub: refkrb",
			"session store (service.SessionMgr), user agents": "stub: cookie -> bytes map with injected faults",
			"time": "real package on the synctest fake clock",
		},
		Assumptions: []string{
			"one-directional: that valid tokens are served is a behaviour probe (the biconditional is C01's)",
			"the session store is the application's own trusted component: it fails or loses values, it never turns a stored value into another decodable one; a stolen cookie is the session it names",
			"byte-level damage is applied only to headers whose AP-REQ carries no catalogue defect, so that damage cannot repair a defect",
			"a session outlives the ticket that created it (the statement does not bound session life)",
		},
		ChildTimeoutS: 60,
	}
}

func baseSpec(et int) world.ReqSpec {
	return world.ReqSpec{Client: "alice", Svc: "HTTP/host.sim.test", Realm: "SIM.TEST", Kvno: 2, Etype: et, KvnoField: true, StartTime: true, Cksum: true}
}

func Gen(caseID, tier string) (json.RawMessage, error) {
	kind, n, err := engine.ParseCase(caseID)
	if err != nil {
		return nil, err
	}
	if kind == "sweep" {
		per := len(framings)*3*2 + len(defects)*4 + 40
		eti := int(n) / per
		if eti >= len(etypes) {
			return nil, fmt.Errorf("sweep index out of range")
		}
		et := etypes[eti]
		idx := int(n) % per
		tp := Tape{Engine: "c03", RunSeed: 0xc03<<40 | n, Settings: world.ServiceSettings{SkewS: 300}, SessionMgr: idx%2 == 0, Logger: idx%3 != 0}
		rq := Req{Header: "token", Framing: "init-krb5", Mech: "apreq", Spec: baseSpec(et), ReplayOf: -1, ThinkNs: 1000}
		switch {
		case idx < len(framings)*3*2:
			rq.Framing = framings[idx%len(framings)]
			rq.Mech = []string{"apreq", "aprep", "krberror"}[(idx/len(framings))%3]
			if idx/(len(framings)*3) == 1 {
				rq.API = "accept"
			}
		case idx < len(framings)*6+len(defects)*4:
			j := idx - len(framings)*6
			rq.Spec.Defects = []world.Defect{{Kind: defects[j%len(defects)], Arg: 1}}
			rq.Framing = []string{"init-krb5", "init-ms", "resp", "raw"}[j/len(defects)]
		default:
			j := idx - len(framings)*6 - len(defects)*4
			rq.Mangle = []string{"b64-break", "trunc", "subst", "scheme-lower", "no-space"}[j%5]
			rq.MangleArg = int64(j * 37)
			rq.Framing = []string{"init-krb5", "resp", "raw", "init-ms"}[(j/5)%4]
			if j >= 20 {
				rq.Header = []string{"none", "garbage", "basic", "empty"}[j%4]
				rq.Mangle = ""
			}
		}
		// who the client is varies across the sweep: another realm's client, a two-component name
		switch idx % 4 {
		case 1:
			rq.Spec.CRealm = "OTHER.TEST"
		case 2:
			rq.Spec.Client = "carol/admin"
		case 3:
			rq.Spec.PAC = "valid"
			tp.Settings.DecodePAC = true
		}
		tp.Reqs = []Req{rq}
		return core.MustJSON(tp), nil
	}
	r := core.NewRng(n).Derive("c03")
	tp := Tape{Engine: "c03", RunSeed: n, SessionMgr: r.Chance(1, 2), Logger: r.Chance(2, 3)}
	tp.Settings.SkewS = int64(r.PickInt(0, 300, 300, 1, 3600))
	if r.Chance(1, 10) {
		tp.Settings.SkewS, tp.Settings.SkewMs = int64(r.PickInt(0, 0, 1)), int64(r.PickInt(1, 500, 999))
	}
	if r.Chance(1, 5) {
		tp.Settings.RequireAddr = true
	}
	if r.Chance(1, 6) {
		tp.Settings.ClientAddr = "other"
	}
	if r.Chance(1, 6) {
		tp.Settings.KtPrinc = r.Pick("HTTP/host.sim.test", "HTTP/other.sim.test")
	}
	tp.Settings.DecodePAC = r.Chance(1, 2)
	tp.StoreKeepsSlice = tp.SessionMgr && r.Chance(1, 3)
	et := etypes[r.Intn(len(etypes))]
	if r.Chance(1, 50) {
		// history shape: one user sends 65-300 valid tokens and then one of the first three again
		n := r.Range(65, 100)
		if r.Chance(1, 2) {
			n = r.Range(130, 300)
		}
		for i := 0; i < n; i++ {
			tp.Reqs = append(tp.Reqs, Req{Header: "token", Framing: "init-krb5", Mech: "apreq", Spec: baseSpec(et), ReplayOf: -1, ThinkNs: int64(r.Range(1, 2000)) * 1000, Cookie: "none"})
		}
		tp.Reqs = append(tp.Reqs, Req{Header: "token", Framing: "init-krb5", Mech: "apreq", Spec: baseSpec(et), ReplayOf: r.Intn(3), ThinkNs: int64(r.Range(1, 2000)) * 1000, Cookie: "none"})
		return core.MustJSON(tp), nil
	}
	nr := r.Range(1, 8)
	apiRun := r.Chance(1, 6)
	for i := 0; i < nr; i++ {
		rq := Req{Agent: r.Intn(3), ReplayOf: -1, Spec: baseSpec(et)}
		switch r.Intn(8) {
		case 0, 1, 2, 3:
			rq.ThinkNs = int64(r.Range(0, 100000))
		case 4, 5:
			rq.ThinkNs = int64(r.Range(1, 5000)) * 1_000_000
		case 6:
			rq.ThinkNs = 1800_000_000_000
		default:
			rq.ThinkNs = 4000_000_000_000 // past the ticket's life
		}
		switch x := r.Intn(20); {
		case x < 2:
			rq.Header = "none"
		case x < 3:
			rq.Header = r.Pick("garbage", "basic", "empty")
		default:
			rq.Header = "token"
			rq.Framing = framings[r.Intn(len(framings))]
			if r.Chance(1, 2) {
				rq.Framing = r.Pick("init-krb5", "init-krb5", "init-ms", "resp", "raw")
			}
			rq.Mech = r.Pick("apreq", "apreq", "apreq", "apreq", "aprep", "krberror")
			rq.Spec.Client = r.Pick("alice", "bob", "carol/admin")
			rq.Spec.CRealm = r.Pick("", "", "OTHER.TEST") // "" = the service's realm
			rq.Spec.Addrs = r.Pick("", "", "", "match", "other", "both", "nb-other", "nb-match", "nb-only", "match-bytes-as-type3")
			rq.Spec.StartTime = !r.Chance(1, 4)
			rq.Spec.Subkey = r.Chance(1, 3)
			if r.Chance(1, 4) {
				rq.Spec.PAC = r.Pick("valid", "valid", "valid", "flipped", "wrongkey", "sigflipped", "truncated", "nosig", "noinfo")
			}
			if r.Chance(1, 3) {
				rq.Spec.Defects = []world.Defect{{Kind: defects[r.Intn(len(defects))], Arg: int64(r.PickInt(-1000000000, -1, 1, 1000000000))}}
			} else if r.Chance(1, 4) {
				rq.Mangle = r.Pick("b64-break", "trunc", "subst", "subst", "scheme-lower", "no-space")
				rq.MangleArg = int64(r.Intn(4000))
			}
			if i > 0 && r.Chance(1, 5) {
				rq.ReplayOf = r.Intn(i)
			}
		}
		if tp.SessionMgr {
			rq.Overlap = r.Chance(1, 4)
			rq.Cookie = r.Pick("", "", "", "none", "forged", "other")
			if r.Chance(1, 5) {
				rq.StoreFault = r.Pick("get-error", "get-error-stale", "get-error-stale", "new-error", "lost", "truncated")
			}
		}
		if apiRun && rq.Header == "token" {
			rq.API = r.Pick("accept", "accept", "krb5token", "neginit", "negresp")
		}
		tp.Reqs = append(tp.Reqs, rq)
	}
	return core.MustJSON(tp), nil
}
