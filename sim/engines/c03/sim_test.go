package c03

import (
	"bytes"
	"encoding/base64"
	"encoding/hex"
	"encoding/json"
	"errors"
	"fmt"
	"log"
	"net/http"
	"net/http/httptest"
	"os"
	"strings"
	"syscall"
	"testing"
	"time"

	"github.com/jcmturner/goidentity/v6"
	"github.com/jcmturner/gokrb5/v8/keytab"
	"github.com/jcmturner/gokrb5/v8/service"
	"github.com/jcmturner/gokrb5/v8/spnego"
	"github.com/jcmturner/gokrb5/v8/test/testdata"
	"github.com/jcmturner/gokrb5/v8/types"

	"verifsim/core"
	"verifsim/engine"
	"verifsim/refkrb/rcrypto"
	"verifsim/refkrb/rk"
	"verifsim/shim/simsync"
	"verifsim/simrt"
	"verifsim/world"
)

type eng struct{}

func (eng) Meta() core.Meta                             { return Meta() }
func (eng) Gen(c, tier string) (json.RawMessage, error) { return Gen(c, tier) }
func (eng) Run(tape json.RawMessage, res *core.Result)  { run(tape, res) }
func TestSim(t *testing.T) {
	if os.Getenv("VERIF_MODE") == "run" {
		// a damaged PAC can make the NDR decoder of the dependency rpc/v2 ask for tens of gigabytes (a
		// known finding of C04): let that fail at once instead of filling the sandbox's memory
		lim := syscall.Rlimit{Cur: 6 << 30, Max: 6 << 30}
		syscall.Setrlimit(syscall.RLIMIT_AS, &lim)
	}
	engine.Main(t, eng{})
}

// ---- the application's session store
type sess struct {
	val     []byte
	creator int // index of the request that created it
}

type store struct {
	m       map[string]*sess
	n       int
	fault   string
	cur     int // request being processed
	fired   map[string]int
	newCall bool
	created string
	getOK   bool // the last Get returned an intact stored value
	getSid  string
	// keepsSlice: the store keeps the byte slice it is handed instead of copying it (a map-backed
	// store does exactly that)
	keepsSlice bool
	// overlap, when set, is run once inside the next Get: another user's complete request is served
	// while this request waits for its session look-up
	overlap func()
	nested  bool
}

func (s *store) New(w http.ResponseWriter, r *http.Request, k string, v []byte) error {
	if s.nested {
		// the overlapping request of the other user: stored, not tracked
		s.n++
		s.m[fmt.Sprintf("bg-%d", s.n)] = &sess{val: append([]byte{}, v...), creator: -1}
		return nil
	}
	s.newCall = true
	if s.fault == "new-error" {
		s.fired["store-new-error"]++
		return errors.New("session store unavailable")
	}
	s.n++
	sid := fmt.Sprintf("sid-%d-%x", s.n, core.NewRng(uint64(s.n)*7919).U64())
	if s.keepsSlice {
		s.m[sid] = &sess{val: v, creator: s.cur}
	} else {
		s.m[sid] = &sess{val: append([]byte{}, v...), creator: s.cur}
	}
	s.created = sid
	http.SetCookie(w, &http.Cookie{Name: "sim_session", Value: sid})
	return nil
}

func (s *store) Get(r *http.Request, k string) ([]byte, error) {
	if s.nested {
		return nil, nil
	}
	if s.overlap != nil {
		f := s.overlap
		s.overlap, s.nested = nil, true
		f()
		s.nested = false
	}
	s.getOK = false
	c, err := r.Cookie("sim_session")
	if err != nil {
		return nil, nil
	}
	x := s.m[c.Value]
	if x == nil {
		return nil, nil
	}
	switch s.fault {
	case "get-error":
		s.fired["store-get-error"]++
		return nil, errors.New("session store unavailable")
	case "get-error-stale":
		// the store reports a failure (session revoked, backend down) and hands back what it still
		// has in its buffer: the error is what counts
		s.fired["store-get-error"]++
		return x.val, errors.New("session revoked")
	case "lost":
		s.fired["store-value-lost"]++
		return nil, nil
	case "truncated":
		s.fired["store-value-truncated"]++
		return x.val[:len(x.val)/2], nil
	}
	s.getOK, s.getSid = true, c.Value
	return x.val, nil
}

type outcome struct {
	I        int      `json:"i"`
	What     string   `json:"what"`
	Status   int      `json:"status"`
	Served   bool     `json:"served"`
	WWWAuth  string   `json:"www_authenticate,omitempty"`
	User     string   `json:"user,omitempty"`
	Domain   string   `json:"domain,omitempty"`
	Model    string   `json:"model,omitempty"`
	Reasons  []string `json:"reasons,omitempty"`
	Panic    string   `json:"panic,omitempty"`
	API      string   `json:"api,omitempty"`
	APIOK    bool     `json:"api_ok,omitempty"`
	Defects  []string `json:"defects,omitempty"`
	BySess   bool     `json:"session_valid,omitempty"`
	StoreErr string   `json:"store_fault,omitempty"`
}

func run(tapeJSON json.RawMessage, res *core.Result) {
	var tp Tape
	if err := json.Unmarshal(tapeJSON, &tp); err != nil {
		res.Verdict, res.Harness = "invalid", err.Error()
		return
	}
	if len(tp.Reqs) < 1 || len(tp.Reqs) > 400 || tp.Settings.SkewS < 0 || tp.Settings.SkewS > 86400 {
		res.Verdict, res.Harness = "invalid", "shape"
		return
	}
	simsync.Passive = true
	st := tp.Settings
	if st.ClientAddr == "" {
		st.ClientAddr = "match" // the wrapper passes the request's remote address (10.1.2.3) to the verifier
	}
	skew := st.Skew()
	ktm := world.BuildKeytab(tp.RunSeed, []string{"HTTP/host.sim.test", "HTTP/other.sim.test"}, []string{"SIM.TEST"}, []int{1, 2}, etypes)
	kt := keytab.New()
	if err := kt.Unmarshal(ktm.Bytes()); err != nil {
		res.Verdict, res.Harness = "harness-error", "keytab: "+err.Error()
		return
	}
	var logBuf bytes.Buffer
	opts := []func(*service.Settings){service.DecodePAC(st.DecodePAC)}
	if st.SkewS != 0 || st.SkewMs != 0 {
		opts = append(opts, service.MaxClockSkew(skew))
	}
	if st.RequireAddr {
		opts = append(opts, service.RequireHostAddr(true))
	}
	if tp.Settings.ClientAddr == "other" {
		opts = append(opts, service.ClientAddress(types.HostAddress{AddrType: 2, Address: world.ClientAddrOther}))
	}
	if st.KtPrinc != "" {
		opts = append(opts, service.KeytabPrincipal(st.KtPrinc))
	}
	if tp.Logger {
		opts = append(opts, service.Logger(log.New(&logBuf, "", 0)))
	}
	var ss *store
	if tp.SessionMgr {
		ss = &store{m: map[string]*sess{}, fired: map[string]int{}, keepsSlice: tp.StoreKeepsSlice}
		opts = append(opts, service.SessionManager(ss))
	}
	innerRan := false
	var ctxUser, ctxDomain string
	var ctxAuthed bool
	inner := http.HandlerFunc(func(w http.ResponseWriter, r *http.Request) {
		innerRan = true
		if id := goidentity.FromHTTPRequestContext(r); id != nil {
			ctxUser, ctxDomain, ctxAuthed = id.UserName(), id.Domain(), id.Authenticated()
		}
		w.WriteHeader(200)
	})
	handler := spnego.SPNEGOKRB5Authenticate(inner, kt, opts...)
	simrt.SleepExact(int64(time.Hour) + 333)
	service.GetReplayCache(skew)

	pacSample, _ := hex.DecodeString(testdata.MarshaledPAC_AD_WIN2K_PAC)
	minter := &world.Minter{Seed: tp.RunSeed, Kt: ktm, PACFor: world.StdPACFor(pacSample, tp.RunSeed)}
	rng := core.NewRng(tp.RunSeed).Derive("c03")
	replay := map[string]bool{}
	taint := map[string]bool{}
	var minted []*world.Truth
	headers := make([]string, len(tp.Reqs))
	jars := map[int]string{}
	sessIdentity := map[string][2]string{} // sid -> user, realm
	var classParts []string
	res.Evals = 0
	done := simrt.Spawn(1, "agents", simrt.Sched{Mode: "min"}, func() {
		for i, rq := range tp.Reqs {
			if rq.ThinkNs > 0 {
				simrt.SleepExact(rq.ThinkNs)
			}
			s := time.Now().UTC().Truncate(time.Second).Add(2 * time.Second)
			o := outcome{I: i, What: rq.Header}
			var tr *world.Truth
			hdr := ""
			delta := int64(0)
			switch {
			case rq.ReplayOf >= 0 && rq.ReplayOf < i:
				hdr = headers[rq.ReplayOf]
				o.What = "replayed-header"
				res.Probes["header-replayed"]++
			case rq.Header == "token":
				var err error
				spec := rq.Spec
				tr, err = minter.Mint(spec, s, skew, rng)
				if err != nil {
					res.Verdict, res.Harness = "invalid", "mint: "+err.Error()
					return
				}
				minted = append(minted, tr)
				delta = tr.TimeDelta
				o.Defects = tr.Defects
				tok := buildToken(rq, tr, rng, s)
				hdr = "Negotiate " + base64.StdEncoding.EncodeToString(tok)
				o.What = rq.Framing + "/" + rq.Mech
				if len(tr.Defects) == 0 && rq.Mangle != "" {
					hdr = mangle(hdr, rq.Mangle, rq.MangleArg)
					o.What += "/" + rq.Mangle
					res.Probes["header-damaged-in-transit"]++
				}
				switch rq.Mech {
				case "krberror":
					res.Probes["krb-error-mech-token"]++
				case "aprep":
					res.Probes["ap-rep-mech-token"]++
				default:
					if len(tr.Defects) > 0 {
						res.Probes["defective-token"]++
					} else {
						res.Probes["valid-token"]++
					}
				}
				switch rq.Framing {
				case "init-empty":
					res.Probes["empty-mech-list"]++
				case "init-foreign", "resp-foreign":
					res.Probes["foreign-mech-list"]++
				}
			case rq.Header == "garbage":
				hdr = "Negotiate " + base64.StdEncoding.EncodeToString(rng.Bytes(1+rng.Intn(300)))
			case rq.Header == "basic":
				hdr = "Basic YWxpY2U6c2VjcmV0"
			case rq.Header == "empty":
				hdr = "Negotiate "
			}
			headers[i] = hdr
			simrt.SleepExact(int64(s.Add(time.Duration(delta)).Sub(time.Now())))
			now := time.Now().UTC()
			// ---- direct API calls
			if rq.API != "" && rq.Header == "token" && rq.ReplayOf < 0 {
				res.Probes["api-called-directly"]++
				o.API = rq.API
				callAPI(rq, hdr, kt, opts, &o)
				res.Evals++
				judgeAPI(res, &o, hdr, minted, st, ktm, now, replay, taint)
				classParts = append(classParts, fmt.Sprintf("api:%s:%s:%v", rq.API, o.What, o.APIOK))
				continue
			}
			// ---- the HTTP request
			req := httptest.NewRequest("GET", "http://host.sim.test/app", nil)
			req.RemoteAddr = "10.1.2.3:40000"
			if hdr != "" {
				req.Header.Set("Authorization", hdr)
			}
			cookie := ""
			if ss != nil {
				switch rq.Cookie {
				case "":
					cookie = jars[rq.Agent]
				case "forged":
					cookie = fmt.Sprintf("sid-%d-%x", 1+rng.Intn(3), rng.U64())
					res.Probes["forged-cookie"]++
				case "other":
					cookie = jars[(rq.Agent+1)%3]
				}
				if cookie != "" {
					req.AddCookie(&http.Cookie{Name: "sim_session", Value: cookie})
					if rq.Cookie == "" {
						res.Probes["own-cookie"]++
					}
				}
				ss.fault, ss.cur, ss.newCall, ss.created, ss.getOK = rq.StoreFault, i, false, "", false
				o.StoreErr = rq.StoreFault
				if rq.Overlap {
					// while this request waits in the session look-up another user, at another address,
					// with a valid ticket bound to that address, is served from start to end
					ss.overlap = func() {
						bs := baseSpec(etypes[0])
						bs.Client, bs.Addrs = "bguser", "other"
						btr, err := minter.Mint(bs, time.Now().UTC().Truncate(time.Second), skew, rng)
						if err != nil {
							return
						}
						breq := httptest.NewRequest("GET", "http://host.sim.test/other", nil)
						breq.RemoteAddr = "10.9.9.9:5000"
						breq.Header.Set("Authorization", "Negotiate "+base64.StdEncoding.EncodeToString(rk.NegTokenInit([][]int{rk.OIDKRB5}, rk.KRB5Token(rk.TokAPReq, btr.Bytes))))
						sr, su, sd, sa := innerRan, ctxUser, ctxDomain, ctxAuthed
						engine.Guard(func() { handler.ServeHTTP(httptest.NewRecorder(), breq) })
						if innerRan && !sr {
							res.Probes["overlapping-request-served"]++
						}
						innerRan, ctxUser, ctxDomain, ctxAuthed = sr, su, sd, sa
					}
				}
			}
			rec := httptest.NewRecorder()
			innerRan, ctxUser, ctxDomain, ctxAuthed = false, "", "", false
			panicked, frame, msg := engine.Guard(func() { handler.ServeHTTP(rec, req) })
			if time.Now().UTC() != now {
				res.Verdict, res.Harness = "harness-error", "clock moved during the request"
				return
			}
			res.Evals++
			o.Status, o.Served, o.WWWAuth = rec.Code, innerRan, rec.Header().Get("WWW-Authenticate")
			o.User, o.Domain = ctxUser, ctxDomain
			if panicked {
				o.Panic = frame + ": " + msg
			}
			if ss != nil {
				for k, v := range ss.fired {
					res.Faults[k] += v
					switch k {
					case "store-get-error":
						res.Probes["store-get-failed"] += v
					case "store-new-error":
						res.Probes["store-new-failed"] += v
					default:
						res.Probes["stored-value-lost-or-truncated"] += v
					}
				}
				ss.fired = map[string]int{}
			}
			// ---- oracle
			// justification (a): a session of this store, answered correctly
			bySession := ss != nil && ss.getOK && ss.m[ss.getSid] != nil
			o.BySess = bySession
			// justification (b): the header carries, bit for bit, a minted AP-REQ the model accepts now
			m, mv := findMinted(hdr, minted, st, ktm, now, replay, taint)
			if m != nil {
				o.Model, o.Reasons = mv.Accept, mv.Reasons
				if now.After(m.End) {
					res.Probes["ticket-expired-between-requests"]++
				}
			}
			byHeader := m != nil && mv.Accept != "reject"
			if innerRan {
				switch {
				case !bySession && !byHeader:
					kind := "no-token-and-no-session"
					if m != nil {
						kind = "rejected-ap-req|" + strings.Join(nonEither(mv.Reasons), "+")
					} else if hdr != "" {
						kind = "header-without-minted-ap-req|" + o.What
					}
					engine.Violate(res, "served-without-authentication|"+kind, o)
				default:
					okID := false
					if bySession {
						id := sessIdentity[ss.getSid]
						okID = okID || (ctxUser == id[0] && ctxDomain == id[1])
					}
					if byHeader {
						okID = okID || (ctxUser == strings.Join(m.TktCName, "/") && ctxDomain == m.TktCRealm)
						// a verified PAC is sealed inside the ticket too: the user name may be the effective
						// name the KDC put there (the captured sample PAC names "testuser1")
						okID = okID || (m.HasPAC && m.PACValid && tp.Settings.DecodePAC && ctxUser == "testuser1" && ctxDomain == m.TktCRealm)
					}
					if !okID || !ctxAuthed {
						engine.Violate(res, "wrong-identity-in-context", o)
					}
				}
				if m != nil {
					if bySession && byHeader {
						taint[mv.ReplayKey] = true
					} else if !bySession {
						replay[mv.ReplayKey] = true
					}
				}
				if ss != nil && ss.created != "" {
					sessIdentity[ss.created] = [2]string{ctxUser, ctxDomain}
					jars[rq.Agent] = ss.created
				}
			} else {
				if m != nil && mv.PassedToReplayCheck {
					taint[mv.ReplayKey] = true
				}
				storeFailed := ss != nil && ss.newCall && rq.StoreFault == "new-error"
				switch {
				case panicked:
					engine.Violate(res, "refusal-panicked|"+frame, o)
				case rec.Code >= 500 && rec.Code < 600 && storeFailed:
					// the application's own store failed after a successful authentication
					if m != nil {
						replay[mv.ReplayKey] = true
					}
				case rec.Code != http.StatusUnauthorized:
					engine.Violate(res, fmt.Sprintf("wrong-refusal|status-%d", rec.Code), o)
				case !strings.HasPrefix(o.WWWAuth, "Negotiate"):
					engine.Violate(res, "wrong-refusal|no-negotiate-challenge", o)
				}
			}
			cls := "refused"
			if innerRan {
				cls = "served"
			}
			classParts = append(classParts, fmt.Sprintf("%s:%s:%s:%s:%s:%d", o.What, strings.Join(o.Defects, "+"), rq.Cookie, rq.StoreFault, cls, rec.Code))
			if hdr != "" || cookie != "" {
				res.Nontrivial = true
			}
			simrt.Logf("request #%d %s defects=%v cookie=%q fault=%s -> status=%d served=%v user=%s@%s model=%s %v", i, o.What, o.Defects, cookie, rq.StoreFault, rec.Code, innerRan, ctxUser, ctxDomain, o.Model, o.Reasons)
		}
	})
	simrt.Wait(done)
	if done.Panic != nil {
		res.Verdict, res.Harness = "harness-error", fmt.Sprintf("agent task panicked: %v\n%s", done.Panic, done.Stack)
		return
	}
	if res.Evals == 0 {
		res.Evals = 1
	}
	res.Class = fmt.Sprintf("sm=%v,log=%v,skew=%d,ra=%v,ca=%s,kp=%s|%s", tp.SessionMgr, tp.Logger, tp.Settings.SkewS, st.RequireAddr, tp.Settings.ClientAddr, st.KtPrinc, strings.Join(classParts, ";"))
}

func nonEither(rs []string) []string {
	var o []string
	for _, r := range rs {
		if !strings.HasPrefix(r, "either:") {
			o = append(o, r)
		}
	}
	return o
}

// findMinted looks for a minted AP-REQ whose ticket and authenticator ciphertexts both occur,
// bit for bit, in the base64-decoded header, and evaluates the C01 model on it.
func findMinted(hdr string, minted []*world.Truth, st world.ServiceSettings, ktm *world.KeytabModel, now time.Time, replay, taint map[string]bool) (*world.Truth, world.Verdict) {
	parts := strings.SplitN(hdr, " ", 2)
	if len(parts) != 2 {
		return nil, world.Verdict{}
	}
	raw, err := base64.StdEncoding.DecodeString(strings.TrimSpace(parts[1]))
	if err != nil {
		// tolerate what a lenient decoder might accept: try the longest decodable prefix
		raw, _ = base64.StdEncoding.DecodeString(parts[1][:len(parts[1])/4*4])
	}
	for _, m := range minted {
		if len(m.TicketCipher) >= 16 && len(m.AuthCipher) >= 16 && bytes.Contains(raw, m.TicketCipher) && bytes.Contains(raw, m.AuthCipher) {
			mv := world.Accept(m, st, ktm, now, replay)
			if mv.Accept == "accept" && world.SameClientTime(taint, mv.ReplayKey) && !replay[mv.ReplayKey] {
				mv.Accept = "either"
				mv.Reasons = append(mv.Reasons, "either:replay-state-unknown")
			}
			return m, mv
		}
	}
	return nil, world.Verdict{}
}

// buildToken renders the Negotiate token for the request.
func buildToken(rq Req, tr *world.Truth, rng *core.Rng, s time.Time) []byte {
	var inner, tok []byte
	switch rq.Mech {
	case "aprep":
		p := rk.EncAPRepPart{CTime: s, Cusec: 5}
		enc, _ := rk.Seal(tr.SessKey, rk.KUAPRepEncPart, p.EncBytes(), rng.Bytes(rcrypto.ConfounderSize(int(tr.SessKey.Etype))), 0, false)
		inner, tok = rk.EncAPRep(enc), rk.TokAPRep
	case "krberror":
		e := rk.KRBError{STime: s, Code: 41, Realm: "SIM.TEST", SName: rk.ParseName("HTTP/host.sim.test")}
		inner, tok = e.EncBytes(), rk.TokKRBError
	default:
		inner, tok = tr.Bytes, rk.TokAPReq
	}
	mech := rk.KRB5Token(tok, inner)
	switch rq.Framing {
	case "init-ms":
		return rk.NegTokenInit([][]int{rk.OIDMSKRB5, rk.OIDKRB5}, mech)
	case "init-ntlm-first":
		return rk.NegTokenInit([][]int{rk.OIDNTLM, rk.OIDKRB5}, mech)
	case "init-empty":
		return rk.NegTokenInit(nil, mech)
	case "init-foreign":
		return rk.NegTokenInit([][]int{rk.OIDNTLM}, mech)
	case "init-nomechtoken":
		return rk.NegTokenInit([][]int{rk.OIDKRB5}, nil)
	case "resp":
		return rk.NegTokenResp(1, rk.OIDKRB5, mech)
	case "resp-notoken-completed":
		return rk.NegTokenResp(0, rk.OIDKRB5, nil) // the service's own accept-completed answer echoed back
	case "resp-notoken-incomplete":
		return rk.NegTokenResp(1, rk.OIDKRB5, nil)
	case "resp-nomech":
		return rk.NegTokenResp(1, nil, mech)
	case "resp-foreign":
		return rk.NegTokenResp(1, rk.OIDNTLM, mech)
	case "raw":
		return mech
	}
	return rk.NegTokenInit([][]int{rk.OIDKRB5}, mech)
}

func mangle(hdr, kind string, arg int64) string {
	parts := strings.SplitN(hdr, " ", 2)
	b64 := parts[1]
	switch kind {
	case "b64-break":
		i := int(arg) % len(b64)
		return parts[0] + " " + b64[:i] + "*" + b64[i+1:]
	case "trunc":
		raw, _ := base64.StdEncoding.DecodeString(b64)
		k := int(arg) % len(raw)
		return parts[0] + " " + base64.StdEncoding.EncodeToString(raw[:k])
	case "subst":
		raw, _ := base64.StdEncoding.DecodeString(b64)
		i := int(arg) % len(raw)
		raw[i] ^= byte(1 + arg%255)
		return parts[0] + " " + base64.StdEncoding.EncodeToString(raw)
	case "scheme-lower":
		return "negotiate " + b64
	case "no-space":
		return "Negotiate" + b64
	}
	return hdr
}

// callAPI calls one of the verification APIs directly on the token.
func callAPI(rq Req, hdr string, kt *keytab.Keytab, opts []func(*service.Settings), o *outcome) {
	parts := strings.SplitN(hdr, " ", 2)
	raw, err := base64.StdEncoding.DecodeString(parts[len(parts)-1])
	if err != nil {
		return
	}
	panicked, frame, msg := engine.Guard(func() {
		switch rq.API {
		case "accept":
			var st spnego.SPNEGOToken
			if e := st.Unmarshal(raw); e != nil {
				var k5 spnego.KRB5Token
				if k5.Unmarshal(raw) != nil {
					return
				}
				st.Init = true
				st.NegTokenInit = spnego.NegTokenInit{MechTypes: nil, MechTokenBytes: raw}
				st.NegTokenInit.MechTypes = append(st.NegTokenInit.MechTypes, k5.OID)
			}
			sp := spnego.SPNEGOService(kt, opts...)
			ok, _, _ := sp.AcceptSecContext(&st)
			o.APIOK = ok
		case "krb5token", "neginit", "negresp":
			// without service settings only tokens that do not hold an AP-REQ can be offered
			if rq.Mech == "apreq" {
				return
			}
			mech := raw
			if pi, e := rk.DecNegTokenInit(raw); e == nil && pi.MechToken != nil {
				mech = pi.MechToken
			}
			switch rq.API {
			case "krb5token":
				var k5 spnego.KRB5Token
				if k5.Unmarshal(mech) != nil {
					return
				}
				ok, _ := k5.Verify()
				o.APIOK = ok
			case "neginit":
				var n spnego.NegTokenInit
				if n.Unmarshal(raw[func() int {
					// strip the GSS header: [APPLICATION 0] { OID, negTokenInit }
					if len(raw) > 2 && raw[0] == 0x60 {
						if i := bytes.Index(raw, []byte{0xa0}); i > 0 {
							return i
						}
					}
					return 0
				}():]) != nil {
					return
				}
				ok, _ := n.Verify()
				o.APIOK = ok
			case "negresp":
				var n spnego.NegTokenResp
				if n.Unmarshal(raw) != nil {
					return
				}
				ok, _ := n.Verify()
				o.APIOK = ok
			}
		}
	})
	if panicked {
		o.Panic = frame + ": " + msg
	}
}

func judgeAPI(res *core.Result, o *outcome, hdr string, minted []*world.Truth, st world.ServiceSettings, ktm *world.KeytabModel, now time.Time, replay, taint map[string]bool) {
	m, mv := findMinted(hdr, minted, st, ktm, now, replay, taint)
	if m != nil {
		o.Model, o.Reasons = mv.Accept, mv.Reasons
	}
	if o.APIOK {
		if m == nil || mv.Accept == "reject" {
			why := "token-without-ap-req|" + strings.SplitN(o.What+"/", "/", 3)[1]
			if m != nil {
				why = "rejected-ap-req|" + strings.Join(nonEither(mv.Reasons), "+")
			}
			engine.Violate(res, "verifier-api-said-yes|"+o.API+"|"+why, o)
		}
		if m != nil {
			replay[mv.ReplayKey] = true
		}
	} else if m != nil && mv.PassedToReplayCheck {
		taint[mv.ReplayKey] = true
	}
	if o.Panic != "" {
		res.Stats["api_panics"]++
	}
}
