package c09

import (
	"os"
	"encoding/json"
	"fmt"
	"regexp"
	"sort"
	"strings"
	"testing"
	"time"

	"github.com/jcmturner/gokrb5/v8/client"
	"github.com/jcmturner/gokrb5/v8/keytab"

	"verifsim/core"
	"verifsim/engine"
	"verifsim/refkdc"
	"verifsim/shim/simnet"
	"verifsim/shim/simsync"
	"verifsim/simrt"
	"verifsim/world"
	"verifsim/world/gk"
)

type eng struct{}

func (eng) Meta() core.Meta                             { return Meta() }
func (eng) Gen(c, tier string) (json.RawMessage, error) { return Gen(c, tier) }
func (eng) Run(tape json.RawMessage, res *core.Result)  { run(tape, res) }
func TestSim(t *testing.T)                              { engine.Main(t, eng{}) }

var krbErrRe = regexp.MustCompile(`KRB Error: (?:\(|Unknown ErrorCode )(\d+)`)

const password = "pw-7Kq2mVx9Lr4TzB1nHc"

// expect says what the statement demands for one perturbation: reject | either | none (no-op).
func expect(exchange string, etype int, p refkdc.Perturb, addrsRequested bool) string {
	as := exchange == "as"
	switch p.Kind {
	case "authtime-year":
		return "reject" // centuries away from the client's clock (the simulated clock starts in 2000)
	case "nonce", "cname", "cname-extra", "cname-regroup", "crealm", "other-key", "key-of-earlier-s2kparams", "enc-flip", "enc-trunc", "enc-extend":
		return "reject"
	case "sealed-sname", "sealed-srealm":
		if as {
			return "reject"
		}
		return "either"
	case "ticket-realm":
		// the realm of the server the ticket is for: TGS replies are compared with the request; for
		// AS replies "the server name and realm match the outstanding request" covers the ticket's own
		// (unprotected) fields too - the client files the TGT under them
		return "reject"
	case "ticket-sname":
		// the client files the TGT (AS) and caches the ticket or follows it as a referral (TGS) under
		// the ticket's own, unprotected name: it has to agree with the sealed one
		return "reject"
	case "caddr-added":
		// "addresses inside the allowed bounds": a reply may list fewer addresses than were asked
		// for, never one that was not asked for - also when none was asked for
		return "reject"
	case "caddr-dropped":
		return "either"
	case "authtime", "starttime":
		a := p.Arg
		if a < 0 {
			a = -a
		}
		switch {
		case a > 300*sec:
			return "reject"
		case a == 300*sec:
			return "either"
		}
		return "none"
	case "other-usage":
		honest := int64(8)
		if as {
			honest = 3
		}
		if p.Arg == honest {
			return "none"
		}
		if etype == 23 && (p.Arg == 3 || p.Arg == 8 || p.Arg == 9) {
			return "either"
		}
		return "reject"
	case "enc-tag", "msg-type":
		return "either"
	}
	return "either"
}

type detail struct {
	Exchange string   `json:"exchange"`
	Flow     string   `json:"flow"`
	Cred     string   `json:"cred"`
	Etype    int      `json:"etype"`
	Perturb  []string `json:"perturb"`
	Net      string   `json:"net,omitempty"`
	Expect   string   `json:"expect"`
	Outcome  string   `json:"outcome"`
	Err      string   `json:"err,omitempty"`
	Residue  string   `json:"residue,omitempty"`
}

func run(tapeJSON json.RawMessage, res *core.Result) {
	var tp Tape
	if err := json.Unmarshal(tapeJSON, &tp); err != nil {
		res.Verdict, res.Harness = "invalid", err.Error()
		return
	}
	okEt := false
	for _, e := range etypes {
		okEt = okEt || e == tp.Etype
	}
	if !okEt || (tp.Cred != "keytab" && tp.Cred != "password") || (tp.Exchange != "as" && tp.Exchange != "tgs" && tp.Exchange != "referral") || len(tp.Perturb) > 3 {
		res.Verdict, res.Harness = "invalid", "shape"
		return
	}
	switch tp.Flow {
	case "none", "preauth", "assumed":
	default:
		res.Verdict, res.Harness = "invalid", "flow"
		return
	}
	simsync.Passive = true
	gk.Seed(tp.RunSeed)
	pol := refkdc.Policy{RequirePreauth: tp.Flow == "preauth", Hints: tp.Hints, CopyAddresses: true, KvnoInReply: tp.RunSeed%2 == 0,
		// some KDCs repeat the key derivation hints (ETYPE-INFO2 with the salt) in the AS-REP: the
		// client's key then does not depend on the names in the reply
		HintsInASRep: tp.RunSeed%3 == 0}
	user := "alice"
	if tp.Client == "alice/admin" {
		user = tp.Client
	} else if tp.Client != "" {
		res.Verdict, res.Harness = "invalid", "client"
		return
	}
	pol.FASTNegotiation = (tp.RunSeed>>9)%2 == 0
	pol.ErrorSName = []string{"", "", "empty", "krbtgt"}[(tp.RunSeed>>7)%4] // form of the sname in the KDC's KRB-ERRORs
	sim := refkdc.New("SIM.TEST", tp.RunSeed, pol)
	other := refkdc.New("OTHER.TEST", tp.RunSeed+1, refkdc.Policy{CopyAddresses: true})
	refkdc.Link(sim, other)
	sim.AddService("HTTP/host.sim.test")
	sim.AddService("HTTP/first.sim.test")
	other.AddService("HTTP/far.other.test")
	sim.Referral["HTTP/far.other.test"] = "OTHER.TEST"
	if tp.Cred == "keytab" {
		sim.AddKeyUser(user, 4)
	} else {
		it := tp.Iter
		if tp.PriorIter != 0 {
			it = tp.PriorIter
		}
		p := sim.AddPasswordUser(user, password, tp.Salt, it)
		p.Precompute("SIM.TEST", []int{tp.Etype})
	}
	net := world.NewNet()
	simAddr, otherAddr := "10.0.0.1:88", "10.0.1.1:88"
	// the adversary
	armed := false
	var tgsIDs []string // distinct TGS requests seen while armed, in order (a retransmission over another transport is the same request)
	hopOf := func(req []byte) int {
		id := string(req)
		for i, x := range tgsIDs {
			if x == id {
				return i
			}
		}
		tgsIDs = append(tgsIDs, id)
		return len(tgsIDs) - 1
	}
	target := func(req []byte) bool {
		if !armed || len(req) == 0 {
			return false
		}
		switch tp.Exchange {
		case "as":
			return req[0] == 0x6a
		case "tgs":
			return req[0] == 0x6c
		default:
			if req[0] != 0x6c {
				return false
			}
			return hopOf(req) == tp.Hop
		}
	}
	delivered := 0
	pt := func(req []byte) []refkdc.Perturb {
		if target(req) && len(tp.Perturb) > 0 {
			delivered++
			return tp.Perturb
		}
		return nil
	}
	gk.Wire(net, sim, []string{simAddr}, pt)
	gk.Wire(net, other, []string{otherAddr}, pt)
	lastReply := map[byte][]byte{}
	errShot, staleShot, truncShot := false, false, false
	var withheld []byte
	targetSeen := 0
	net.Mangle = func(proto, addr string, req, reply []byte) []byte {
		if len(req) == 0 {
			return reply
		}
		prev := lastReply[req[0]]
		if !armed && len(reply) > 0 && (reply[0] == 0x6b || reply[0] == 0x6d) {
			lastReply[req[0]] = reply
		}
		if !target(req) {
			return reply
		}
		targetSeen++
		switch tp.Net {
		case "krberror", "krberror-second", "krberror-tcp-after-refuse", "krberror-tcp-after-toobig":
			if tp.Net != "krberror" && tp.Net != "krberror-second" && proto != "tcp" {
				return reply
			}
			if tp.Net == "krberror-second" && targetSeen < 2 {
				// the first reply of the exchange stays honest (e.g. PREAUTH_REQUIRED); the KDC's error
				// answers the request the client sends next
				return reply
			}
			if !errShot {
				errShot = true
				res.Probes["krb-error-delivered"]++
				k := sim
				if addr == otherAddr {
					k = other
				}
				return k.ErrorReply(int32(tp.NetArg), req, nil)
			}
		case "stale-within-exchange":
			// the answer to the first request of the exchange is withheld and a (forgeable) pre-
			// authentication error sent in its place; the withheld answer then arrives in reply to the
			// request the client sends next
			if len(reply) > 0 && reply[0] == 0x6b {
				if withheld == nil {
					withheld = reply
					k := sim
					if addr == otherAddr {
						k = other
					}
					return k.ErrorReply(25, req, k.HintsEData(req))
				}
				if !staleShot {
					res.Probes["stale-reply-delivered"]++
				}
				staleShot = true
				return withheld
			}
		case "stale":
			if prev != nil && len(reply) > 0 && (reply[0] == 0x6b || reply[0] == 0x6d) {
				if !staleShot {
					res.Probes["stale-reply-delivered"]++
				}
				staleShot = true
				return prev
			}
		case "truncate":
			if len(reply) > 0 && (reply[0] == 0x6b || reply[0] == 0x6d) {
				k := int(tp.NetArg)
				if k < 0 {
					k = len(reply) + k
				}
				if k >= 0 && k < len(reply) {
					if !truncShot {
						res.Probes["truncated-reply-delivered"]++
					}
					truncShot = true
					return reply[:k]
				}
			}
		}
		return reply
	}
	simnet.Install(net)
	et := gk.EtypeNames[tp.Etype]
	noaddr := !tp.Addrs
	cm := gk.ConfModel{DefaultRealm: "SIM.TEST", NoAddresses: &noaddr, TktEtypes: []string{et}, TGSEtypes: []string{et}, PreauthTypes: []int{tp.Etype},
		Realms:      map[string][]string{"SIM.TEST": {simAddr}, "OTHER.TEST": {otherAddr}},
		DomainRealm: map[string]string{".sim.test": "SIM.TEST"}}
	if tp.TCP {
		cm.UDPLimit = 1
	}
	cm.Canonicalize, cm.Forwardable, cm.Proxiable, cm.RenewLifetime = tp.Canon, tp.Fwd, tp.Prox, tp.Renew
	cfg, _, err := cm.Parse()
	if err != nil {
		res.Verdict, res.Harness = "harness-error", "krb5.conf: "+err.Error()
		return
	}
	var opts []func(*client.Settings)
	if tp.Flow == "assumed" {
		opts = append(opts, client.AssumePreAuthentication(true))
	}
	var cl *client.Client
	if tp.Cred == "keytab" {
		var kt *keytab.Keytab
		kt, _, err = gk.UserKeytab(sim, user)
		if err != nil {
			res.Verdict, res.Harness = "harness-error", "keytab: "+err.Error()
			return
		}
		cl = client.NewWithKeytab(user, "SIM.TEST", kt, cfg, opts...)
	} else {
		cl = client.NewWithPassword(user, "SIM.TEST", password, cfg, opts...)
	}
	udpFault := map[string]string{"krberror-tcp-after-refuse": "refuse", "krberror-tcp-after-toobig": "toobig"}[tp.Net]
	if tp.Net == "dup" {
		for _, a := range []string{simAddr, otherAddr} {
			net.Beh["udp!"+a] = world.Behaviour{Kind: "dup"}
			net.Beh["tcp!"+a] = world.Behaviour{Kind: "dup"}
		}
	}
	spn := "HTTP/host.sim.test"
	if tp.Exchange == "referral" {
		spn = "HTTP/far.other.test"
	}
	var opErr error
	var panicMsg string
	var residue string
	countReqs := func() int { return len(sim.Requests()) + len(other.Requests()) }
	done := simrt.Spawn(1, "client", simrt.Sched{Mode: "min"}, func() {
		guard := func(f func() error) error {
			var e error
			p, frame, msg := engine.Guard(func() { e = f() })
			if p {
				panicMsg = frame + ": " + msg
				return fmt.Errorf("panic: %s", panicMsg)
			}
			return e
		}
		if tp.PriorIter != 0 && tp.Cred == "password" {
			// an earlier login of the same process, by another client object of the same user, under the
			// account's earlier string-to-key parameters; then the account is re-keyed
			cl0 := client.NewWithPassword(user, "SIM.TEST", password, cfg, opts...)
			if e := guard(cl0.Login); e != nil {
				res.Stats["honest_failed"]++
				res.Stats["dont_care"]++
				simrt.Logf("earlier honest login failed: %v", e)
				residue = "prep-failed"
				return
			}
			sim.DB[user].Rekey("SIM.TEST", tp.Iter, []int{tp.Etype})
			res.Probes["account-rekeyed-after-an-earlier-login-of-the-process"]++
		}
		// preparation over an honest network
		if tp.Exchange != "as" || tp.Net == "stale" {
			if e := guard(cl.Login); e != nil {
				res.Stats["honest_failed"]++
				res.Stats["dont_care"]++
				simrt.Logf("honest login failed: %v", e)
				residue = "prep-failed"
				return
			}
		}
		if tp.Exchange != "as" && tp.Net == "stale" {
			if e := guard(func() error { _, _, e := cl.GetServiceTicket("HTTP/first.sim.test"); return e }); e != nil {
				res.Stats["honest_failed"]++
				residue = "prep-failed"
				return
			}
		}
		pause := 3 * time.Second
		if tp.PauseMs > 0 {
			pause = time.Duration(tp.PauseMs) * time.Millisecond
		}
		simrt.SleepExact(int64(pause))
		if udpFault != "" {
			// the first transport fails (or asks for TCP); the KDC's error then arrives over TCP
			for _, a := range []string{simAddr, otherAddr} {
				net.Beh["udp!"+a] = world.Behaviour{Kind: udpFault}
			}
		}
		armed = true
		opErr = guard(func() error {
			if tp.Exchange == "as" {
				return cl.Login()
			}
			_, _, e := cl.GetServiceTicket(spn)
			return e
		})
		armed = false
		// nothing of a rejected reply may be visible afterwards
		if opErr != nil && panicMsg == "" {
			if tp.Exchange != "as" {
				if _, _, ok := cl.GetCachedTicket(spn); ok {
					residue = "ticket-in-cache-after-rejected-reply"
				}
			} else if tp.Net != "stale" {
				before := countReqs()
				e := guard(cl.AffirmLogin)
				if countReqs() == before && e == nil {
					residue = "session-present-after-rejected-reply"
				}
			}
		}
	})
	if late := simrt.WaitTimeout(48*time.Hour, done); len(late) > 0 {
		engine.Violate(res, "no-return|"+tp.Exchange, detail{Exchange: tp.Exchange})
		return
	}
	if done.Panic != nil {
		res.Verdict, res.Harness = "harness-error", fmt.Sprintf("client task panicked: %v\n%s", done.Panic, done.Stack)
		return
	}
	if residue == "prep-failed" {
		res.Class = "prep-failed"
		return
	}
	// what was requested?
	addrsRequested := false
	sawPreauth, sawReferral := false, false
	for _, k := range []*refkdc.KDC{sim, other} {
		for _, rq := range k.Requests() {
			if rq.Req == nil {
				continue
			}
			if len(rq.Req.Addresses) > 0 {
				addrsRequested = true
			}
			if rq.PAKeyOK != nil {
				sawPreauth = true
			}
		}
	}
	for _, is := range sim.Issues() {
		if is.Kind == "referral" {
			sawReferral = true
		}
	}
	if addrsRequested {
		res.Probes["addresses-requested"]++
	}
	if sawPreauth {
		res.Probes["preauth-round-trip"]++
	}
	if sawReferral {
		res.Probes["referral-followed"]++
	}
	// expectation
	exp := "none"
	var pnames, rejNames []string
	dropped, sealedSname := false, false
	for _, p := range tp.Perturb {
		dropped = dropped || p.Kind == "caddr-dropped"
		sealedSname = sealedSname || p.Kind == "sealed-sname"
	}
	for _, p := range tp.Perturb {
		pnames = append(pnames, fmt.Sprintf("%s(%d)", p.Kind, p.Arg))
		if delivered == 0 {
			continue
		}
		e := expect(tp.Exchange, tp.Etype, p, addrsRequested)
		if p.Kind == "caddr-added" && dropped {
			e = "either" // two changes to one field: the list that was extended is dropped again
		}
		if p.Kind == "key-of-earlier-s2kparams" && (tp.PriorIter == 0 || tp.Cred != "password" || tp.Exchange != "as") {
			e = "none" // the account never had other keys (or the reply is not sealed under the account's key): nothing is changed
		}
		if p.Kind == "ticket-sname" && sealedSname {
			// the server name travels twice (sealed reply part, clear-text ticket) and both perturbations
			// write the same forged name: the ticket's name agrees with the sealed one again, and what
			// remains is the sealed name alone
			e = expect(tp.Exchange, tp.Etype, refkdc.Perturb{Kind: "sealed-sname"}, addrsRequested)
		}
		switch e {
		case "reject":
			exp = "reject"
			rejNames = append(rejNames, fmt.Sprintf("%s(%d)", p.Kind, p.Arg))
		case "either":
			if exp == "none" {
				exp = "either"
			}
		}
	}
	if delivered > 0 {
		res.Probes["perturbed-reply-delivered"]++
	}
	if staleShot || truncShot {
		exp = "reject"
	}
	if tp.Net == "dup" && exp == "none" {
		exp = "either"
	}
	outcome := "success"
	if opErr != nil {
		outcome = "fail"
		if m := krbErrRe.FindStringSubmatch(opErr.Error()); m != nil {
			outcome = "err:" + m[1]
		}
	}
	sort.Strings(pnames)
	d := detail{Exchange: tp.Exchange, Flow: tp.Flow, Cred: tp.Cred, Etype: tp.Etype, Perturb: pnames, Net: tp.Net, Expect: exp, Outcome: outcome, Residue: residue}
	if tp.Net != "" {
		d.Net = fmt.Sprintf("%s(%d)", tp.Net, tp.NetArg)
	}
	if opErr != nil {
		d.Err = opErr.Error()
		if len(d.Err) > 300 {
			d.Err = d.Err[:300]
		}
	}
	sort.Strings(rejNames)
	what := strings.Join(rejNames, "+") // the signature names only what the statement says must be refused
	if staleShot {
		what += "+stale"
	}
	if truncShot {
		what += "+truncated"
	}
	what = strings.TrimPrefix(what, "+")
	exName := tp.Exchange
	if tp.Exchange == "as" && sawPreauth {
		exName = "as-preauth"
	}
	switch {
	case errShot:
		c := tp.NetArg
		retry := c == 52 && !tp.TCP && udpFault == "" || tp.Exchange == "as" && (c == 24 || c == 25 || c == 68)
		want := fmt.Sprintf("err:%d", c)
		switch {
		case retry && outcome == "fail" && delivered == 0 && udpFault == "":
			// the client may act on these codes and try again (whatever comes of that is the outcome);
			// when it cannot, the caller has to get the KDC's error, not only the reason it could not
			engine.Violate(res, fmt.Sprintf("krb-error-code-lost|%s|client-could-not-act-on-code-%d", exName, c), d)
		case retry:
			res.Stats["dont_care"]++
		case outcome == "success":
			engine.Violate(res, fmt.Sprintf("krb-error-swallowed|%s|code-%d", exName, c), d)
		case outcome != want:
			engine.Violate(res, fmt.Sprintf("krb-error-code-lost|%s", exName), d)
		}
		if exp == "reject" && outcome == "success" {
			engine.Violate(res, "accepted-though-wrong|"+exName+"|"+what, d)
		}
	case exp == "reject" && outcome == "success":
		engine.Violate(res, "accepted-though-wrong|"+exName+"|"+stripArgs(what), d)
	case exp == "either":
		res.Stats["dont_care"]++
	case exp == "none":
		if outcome == "success" {
			res.Probes["honest-exchange"]++
		} else {
			res.Stats["honest_failed"]++
			if strings.Contains(os.Getenv("VERIF_DEBUG"), "c09-honest") {
				engine.Violate(res, "debug-honest-exchange-failed|"+exName, d) // development aid only (VERIF_DEBUG)
			}
		}
	}
	if panicMsg != "" {
		res.Stats["panics"]++
	}
	if residue != "" {
		engine.Violate(res, "residue-after-rejection|"+exName+"|"+residue, d)
	}
	for k, v := range net.Fired {
		res.Faults[k] += v
	}
	if delivered > 0 {
		res.Faults["perturbed-reply"] += delivered
	}
	if errShot {
		res.Faults["krb-error-reply"]++
	}
	if staleShot {
		res.Faults["stale-reply"]++
	}
	if truncShot {
		res.Faults["truncated-reply"]++
	}
	res.Nontrivial = delivered > 0 || errShot || staleShot || truncShot || tp.Net == "dup"
	res.Class = fmt.Sprintf("%s|%s|%s|%d|%s|%s|%s", exName, tp.Flow, tp.Cred, tp.Etype, what, d.Net, outcome)
	simrt.Logf("exchange=%s perturb=%v net=%s expect=%s outcome=%s", exName, pnames, d.Net, exp, outcome)
}

func stripArgs(s string) string {
	// authtime(301000000000) and friends keep their argument: it is part of what fails
	return s
}
