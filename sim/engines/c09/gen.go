// Package c09 is the engine for property C09: the client accepts a KDC reply only if it answers
// the request it sent.  Real: Client.Login, GetServiceTicket, ASExchange, TGSExchange, sendToKDC,
// the decoders, ASRep.Verify, TGSRep.DecryptEncPart/Verify, GetKeyFromPassword, keytab look-up.
// Simulated: the honest reference KDC, a Byzantine twin that deviates in one named way per
// exchange, a reply adversary in the network (stale, duplicated, truncated replies, KRB-ERRORs),
// the KDC's clock offset.
package c09

import (
	"encoding/json"
	"fmt"
	"strings"

	"verifsim/core"
	"verifsim/engine"
	"verifsim/refkdc"
)

type Tape struct {
	Engine   string           `json:"engine"`
	RunSeed  uint64           `json:"run_seed"`
	Cred     string           `json:"cred"`  // keytab | password
	Etype    int              `json:"etype"` // client etype (single entry in default_*_enctypes)
	Flow     string           `json:"flow"`  // none | preauth | assumed
	Hints    []string         `json:"hints,omitempty"`
	Exchange string           `json:"exchange"`      // as | tgs | referral
	Hop      int              `json:"hop,omitempty"` // referral: which TGS reply is attacked (0 = referral TGT, 1 = final)
	Perturb  []refkdc.Perturb `json:"perturb,omitempty"`
	Net      string           `json:"net,omitempty"` // "" | stale | stale-within-exchange | dup | truncate | krberror
	NetArg   int64            `json:"net_arg,omitempty"`
	Addrs    bool             `json:"addresses,omitempty"` // client asks for addresses (noaddresses = false)
	Client   string           `json:"client,omitempty"`    // "" = alice; alice/admin = a two-component principal
	PauseMs  int64            `json:"pause_ms,omitempty"`  // simulated time between the honest preparation and the attacked exchange (0 = 3000)
	Canon    bool             `json:"canonicalize,omitempty"`
	Fwd      bool             `json:"forwardable,omitempty"`
	Prox     bool             `json:"proxiable,omitempty"`
	Renew    string           `json:"renew_lifetime,omitempty"`
	TCP      bool             `json:"tcp,omitempty"`
	Salt     string           `json:"salt,omitempty"`
	Iter     int              `json:"iter,omitempty"`
	// PriorIter: before the judged exchange another client object of the same process (same user,
	// same password) logged in while the account was keyed with this iteration count; the account
	// has been re-keyed to Iter since
	PriorIter int `json:"prior_iter,omitempty"`
}

type pert struct {
	kind string
	args []int64
}

var sec = int64(1_000_000_000)

// every single-field perturbation of the reply (DESIGN 3, C09)
var perts = []pert{
	{"nonce", []int64{1, -1}},
	{"cname", nil}, {"cname-extra", nil}, {"cname-regroup", nil}, {"crealm", nil},
	{"sealed-sname", nil}, {"sealed-srealm", nil}, {"ticket-realm", nil}, {"ticket-sname", nil},
	{"caddr-added", nil}, {"caddr-dropped", nil},
	{"authtime", []int64{-301 * sec, 301 * sec, -300 * sec, 300 * sec, -299 * sec, 299 * sec, -3600 * sec, 86400 * sec}},
	{"authtime-year", []int64{9999, 2400, 2293, 1970, 1700}},
	{"starttime", []int64{-301 * sec, 301 * sec, -300 * sec, 300 * sec, -299 * sec, 299 * sec, -3600 * sec, 86400 * sec}},
	{"other-key", nil},
	{"key-of-earlier-s2kparams", nil},
	{"other-usage", []int64{3, 8, 9, 2}},
	{"enc-tag", []int64{25, 26, 3}},
	{"msg-type", []int64{11, 13}},
	{"enc-flip", []int64{0, 1, -1, -8, -12, -13, -16, -17, -20, -21, -24, -25}}, {"enc-trunc", []int64{0, 1, 8, 12}}, {"enc-extend", nil},
}

// isTimeKind: perturbations of the KDC's time stamps (authtime moves starttime along in TGS replies).
func isTimeKind(k string) bool { return strings.HasPrefix(k, "authtime") || k == "starttime" }

type single struct {
	p      *refkdc.Perturb
	net    string
	netArg int64
}

func singles() []single {
	var out []single
	out = append(out, single{}) // the honest exchange
	for _, p := range perts {
		if p.args == nil {
			out = append(out, single{p: &refkdc.Perturb{Kind: p.kind}})
		}
		for _, a := range p.args {
			out = append(out, single{p: &refkdc.Perturb{Kind: p.kind, Arg: a}})
		}
	}
	out = append(out, single{net: "stale"}, single{net: "dup"}, single{net: "stale-within-exchange"})
	for _, k := range []int64{0, 1, 4, 30, -1, -20} {
		out = append(out, single{net: "truncate", netArg: k})
	}
	return out
}

var etypes = []int{18, 17, 19, 20, 16, 23}
var exchanges = []string{"as", "tgs", "referral"}
var maxCode = 93

// codes delivered over TCP after the UDP attempt failed or asked for TCP
var viaTCPCodes = []int64{6, 7, 12, 14, 18, 31, 41, 60}

func Meta() core.Meta {
	ns := len(singles())
	q := ns*len(etypes)*len(exchanges) + 2*maxCode + 2*2*len(viaTCPCodes)
	return core.Meta{
		Engine: "c09", Property: "C09", Level: "fault_enumeration",
		Rule:       "case = one run: a real client (keytab or password credential, one etype) performs an AS exchange, a TGS exchange or a referral chain against the reference KDC while exactly one reply is perturbed: a sealed or outer field changed (nonce +-1, cname, crealm, sname, srealm, ticket realm and ticket sname, addresses, authtime and starttime - together and starttime alone - at and beyond the skew bound), sealed under another key / key usage / tag, ciphertext damaged, truncated, duplicated, replaced by the reply to the previous request, or replaced by a KRB-ERROR with each code 1..93; sweep = every single perturbation x 6 etypes x 3 exchanges + every error code x {AS,TGS} (quick: keytab without and password with pre-authentication; thorough: two more credential/flow combinations); seeded runs add a second perturbation, hint layouts, transports and salts; distinct = distinct (exchange, flow, credential, etype, perturbations, outcome); non-trivial = a perturbation or network fault took effect",
		SweepQuick: q * 2, SweepThorough: q * 4,
		SeededQuick: 1500, SeededThorough: 100000,
		WorkloadProbes: []string{"perturbed-reply-delivered", "krb-error-delivered", "stale-reply-delivered", "truncated-reply-delivered", "addresses-requested", "preauth-round-trip", "referral-followed", "honest-exchange", "account-rekeyed-after-an-earlier-login-of-the-process"},
		Components: map[string]string{
			"client.Login/GetServiceTicket, ASExchange, TGSExchange, ASRep/TGSRep Unmarshal+Verify+DecryptEncPart, GetKeyFromPassword, keytab look-up, network code, krb5.conf parser": "real",
			"KDC (honest and Byzantine), reply adversary": "stub: refkdc + simulated network",
			"time": "real package on the synctest fake clock",
		},
		Assumptions: []string{
			"one-directional: acceptance of the honest reply is judged by C10; here only that nothing but the honest answer is accepted",
			"open cases (either): KDC time exactly on the skew bound, application tag 26 on an AS enc-part (RFC 4120 tolerates it) and 25 on a TGS one, msg-type / tag swaps that leave every protected field intact, a duplicated reply, the sealed sname of a TGS reply (the statement names it for AS replies only), dropped addresses, rc4 key usages 3/8/9 (RFC 4757 aliases)",
			"KRB-ERROR codes 24/25 (pre-authentication), 52 over UDP and 68 start the retry the RFCs prescribe: the final outcome is judged",
		},
		ChildTimeoutS: 120,
	}
}

func Gen(caseID, tier string) (json.RawMessage, error) {
	kind, n, err := engine.ParseCase(caseID)
	if err != nil {
		return nil, err
	}
	ss := singles()
	if kind == "sweep" {
		per := len(ss)*len(etypes)*len(exchanges) + 2*maxCode + 2*2*len(viaTCPCodes)
		rep := int(n) / per
		idx := int(n) % per
		tp := Tape{Engine: "c09", RunSeed: 0xc09<<40 | n, Cred: "keytab", Flow: "none", Etype: 18, Addrs: true}
		switch rep {
		case 1:
			tp.Cred, tp.Flow, tp.Canon = "password", "preauth", true
		case 2:
			tp.Cred, tp.Flow, tp.TCP, tp.Fwd, tp.Renew = "keytab", "assumed", true, true, "1d"
		case 3:
			tp.Cred, tp.Flow, tp.Salt, tp.Addrs, tp.Prox, tp.Canon = "password", "none", "Custom.Salt", false, true, true
		case 0:
			tp.Canon, tp.Fwd = idx%2 == 1, idx%3 == 1
			if idx%4 >= 2 {
				tp.Client = "alice/admin"
			}
			tp.PauseMs = []int64{0, 1, 3000}[idx%3]
		default:
			return nil, fmt.Errorf("sweep index out of range")
		}
		if idx >= len(ss)*len(etypes)*len(exchanges)+2*maxCode {
			c := idx - len(ss)*len(etypes)*len(exchanges) - 2*maxCode
			tp.Exchange = []string{"as", "tgs"}[c%2]
			c /= 2
			tp.Net = []string{"krberror-tcp-after-refuse", "krberror-tcp-after-toobig"}[c%2]
			tp.NetArg = viaTCPCodes[c/2]
			tp.TCP = false
			return core.MustJSON(tp), nil
		}
		if idx >= len(ss)*len(etypes)*len(exchanges) {
			c := idx - len(ss)*len(etypes)*len(exchanges)
			tp.Exchange = []string{"as", "tgs"}[c/maxCode]
			tp.Net, tp.NetArg = "krberror", int64(c%maxCode+1)
			if tp.Exchange == "as" && c%2 == 1 {
				// the KDC's error answers the second request of a pre-authenticated exchange
				tp.Cred, tp.Flow, tp.Hints, tp.Net = "password", "preauth", []string{"etype-info2"}, "krberror-second"
			}
			if tp.Cred == "password" {
				tp.Etype = 17
			}
			return core.MustJSON(tp), nil
		}
		s := ss[idx/(len(etypes)*len(exchanges))]
		rem := idx % (len(etypes) * len(exchanges))
		tp.Etype = etypes[rem/len(exchanges)]
		tp.Exchange = exchanges[rem%len(exchanges)]
		if tp.Exchange == "referral" {
			tp.Hop = int(n % 2)
		}
		if s.p != nil {
			tp.Perturb = []refkdc.Perturb{*s.p}
			if s.p.Kind == "key-of-earlier-s2kparams" && tp.Cred == "password" && tp.Etype >= 17 && tp.Etype <= 20 {
				// (for keytab credentials and types without string-to-key parameters there is no such key: a no-op)
				tp.Iter, tp.PriorIter = 5000, 50
			}
		}
		tp.Net, tp.NetArg = s.net, s.netArg
		return core.MustJSON(tp), nil
	}
	r := core.NewRng(n).Derive("c09")
	tp := Tape{Engine: "c09", RunSeed: n, Cred: r.Pick("keytab", "keytab", "password"), Etype: etypes[r.Intn(len(etypes))],
		Flow: r.Pick("none", "preauth", "preauth", "assumed"), Exchange: exchanges[r.Intn(3)], Addrs: r.Chance(1, 2), TCP: r.Chance(1, 3)}
	tp.Canon, tp.Fwd, tp.Prox = r.Chance(1, 3), r.Chance(1, 3), r.Chance(1, 4)
	tp.Client = r.Pick("", "", "alice/admin")
	tp.PauseMs = int64(r.PickInt(0, 3000, 1, 1, 700))
	tp.Renew = r.Pick("", "", "1d")
	if tp.Cred == "password" && (tp.Etype == 19 || tp.Etype == 20) && r.Chance(2, 3) {
		tp.Etype = r.PickInt(17, 18, 23, 16) // RFC 8009 string-to-key costs 32768 PBKDF2 rounds on each side
	}
	if tp.Flow == "preauth" {
		all := []string{"etype-info2", "etype-info", "pw-salt", "enc-timestamp"}
		p := r.Perm(4)
		k := r.Range(1, 4)
		has2 := false
		for i := 0; i < k; i++ {
			tp.Hints = append(tp.Hints, all[p[i]])
			if all[p[i]] == "etype-info2" {
				has2 = true
			}
		}
		if !has2 {
			tp.Hints = append(tp.Hints, "etype-info2")
		}
	}
	if tp.Cred == "password" && tp.Flow == "preauth" && r.Chance(1, 3) {
		tp.Salt = "Other.Salt" + fmt.Sprint(r.Intn(100))
		if r.Chance(1, 2) && (tp.Etype == 17 || tp.Etype == 18) {
			tp.Iter = r.PickInt(1, 100, 4095, 5000)
		}
	}
	tp.Hop = r.Intn(2)
	if tp.Cred == "password" && (tp.Etype == 17 || tp.Etype == 18) && r.Chance(1, 2) {
		// an earlier login of the same process under other string-to-key parameters; in half of these
		// runs the attacked reply is sealed under the key of those earlier parameters
		if tp.Iter == 0 {
			tp.Iter = r.PickInt(100, 4095, 5000)
		}
		tp.PriorIter = r.PickInt(1, 50, 4096, 4097)
		if tp.PriorIter == tp.Iter {
			tp.PriorIter++
		}
		if r.Chance(1, 2) {
			tp.Perturb = append(tp.Perturb, refkdc.Perturb{Kind: "key-of-earlier-s2kparams"})
		}
	}
	np := r.PickInt(0, 1, 1, 1, 2)
	for i := 0; i < np; i++ {
		s := ss[1+r.Intn(len(ss)-1)]
		if s.p != nil {
			dup := false
			for _, q := range tp.Perturb {
				// two changes to one field can cancel (addresses added and dropped; a ciphertext
				// extended by one byte and cut by one byte)
				dup = dup || q.Kind == s.p.Kind || (strings.HasPrefix(q.Kind, "caddr") && strings.HasPrefix(s.p.Kind, "caddr")) ||
					(strings.HasPrefix(q.Kind, "enc-") && strings.HasPrefix(s.p.Kind, "enc-")) ||
					(isTimeKind(q.Kind) && isTimeKind(s.p.Kind)) ||
					(q.Kind == "key-of-earlier-s2kparams" && (s.p.Kind == "other-key" || s.p.Kind == "other-usage"))
			}
			if dup {
				continue
			}
			tp.Perturb = append(tp.Perturb, *s.p)
		} else if tp.Net == "" {
			tp.Net, tp.NetArg = s.net, s.netArg
		}
	}
	if r.Chance(1, 10) {
		tp.Net, tp.NetArg = r.Pick("krberror", "krberror", "krberror-second"), int64(r.Range(1, maxCode))
		if r.Chance(1, 3) {
			tp.Net, tp.TCP = r.Pick("krberror-tcp-after-refuse", "krberror-tcp-after-toobig"), false
		}
	}
	return core.MustJSON(tp), nil
}
