// Package c18 is the engine for property C18: the SPNEGO HTTP client authenticates once, replays
// the body, and terminates.  Real: spnego.NewClient, Client.Do/Get/Post/Head, SetSPNEGOHeader,
// setRequestSPN, SPNEGOClient.AcquireCred/InitSecContext, NewNegTokenInitKRB5, NewKRB5TokenAPREQ,
// the krb5 client below them, net/http's client with cookie jar and redirect logic.  Simulated:
// the HTTP server (a scripted RoundTripper), DNS, the reference KDC; the independent acceptor is
// refkrb holding the service key.
package c18

import (
	"encoding/json"
	"fmt"

	"verifsim/core"
	"verifsim/engine"
)

type Tape struct {
	Engine       string   `json:"engine"`
	RunSeed      uint64   `json:"run_seed"`
	Etype        int      `json:"etype"`
	SPNMode      string   `json:"spn_mode"` // explicit | derived
	Host         string   `json:"host"`     // URL host (see hosts)
	Method       string   `json:"method"`   // GET | HEAD | POST | PUT
	BodySize     int      `json:"body_size"`
	ReadMode     string   `json:"read_mode"` // all | some | none : how much of the body the server reads before it answers
	ReadK        int      `json:"read_k,omitempty"`
	Script       []string `json:"script"`                  // responses in order
	Tail         string   `json:"tail"`                    // response to every further request
	API          string   `json:"api,omitempty"`           // do | get | post | head | header
	SelfRedirect bool     `json:"self_redirect,omitempty"` // "302 same host" points at the URL just requested
	Cycle        []string `json:"cycle,omitempty"`         // when set, the tail is this sequence repeated for ever instead of one constant response
	GapS         int64    `json:"gap_s,omitempty"`         // simulated seconds between the earlier calls and the judged one (tickets then live 10 minutes, renewable)
	Warm         []string `json:"warm,omitempty"`          // earlier calls of the same spnego.Client (GET), each against a server answering this kind for ever
	RespBody     string   `json:"resp_body,omitempty"`     // "" = a few bytes | endless: every response (but those to HEAD) has a body that never ends (seeded runs)
	KDCDown      string   `json:"kdc_down,omitempty"`      // during the judged call no KDC can be reached: refuse | silent | close (seeded runs)
	PreAuth      string   `json:"pre_auth,omitempty"`      // api=do: the request handed to Do already carries an Authorization header: stale (a Negotiate token left by an earlier use of the request) | basic
}

// other legal spellings of "401 with a bare Negotiate challenge" (RFC 7235: several header fields, a
// list of challenges in one field, case-insensitive scheme); seeded runs only
var challengeForms = []string{"401-negotiate-after-basic", "401-negotiate-in-list", "401-negotiate-lowercase"}

// IsChallenge: the response is a 401 offering Negotiate without a token.
func IsChallenge(kind string) bool {
	if kind == "401-negotiate" {
		return true
	}
	for _, f := range challengeForms {
		if f == kind {
			return true
		}
	}
	return false
}

// response alphabet of the property's quantifier
var alphabet = []string{"200", "401-negotiate", "401-reject-token", "401-basic", "302-same", "302-other", "500"}

var hosts = []string{"host.sim.test", "alias.sim.test", "host.sim.test:8080", "host.sim.test.", "nodns.sim.test", "UPPER.sim.test", "far.other.test", "NoDNS.sim.test"}
var etypes = []int{18, 17, 19, 20, 16, 23}

func pow(b, e int) int {
	r := 1
	for ; e > 0; e-- {
		r *= b
	}
	return r
}

func scriptsUpTo(n int) int {
	t := 0
	for l := 0; l <= n; l++ {
		t += pow(len(alphabet), l)
	}
	return t * len(alphabet)
}

func Meta() core.Meta {
	return core.Meta{
		Engine: "c18", Property: "C18", Level: "exploration",
		Rule:       "case = one run: a logged-in real client issues one HTTP call through spnego.Client against a scripted server: every response sequence of length <= 3 (quick) / <= 5 (thorough) over {200, 401 bare Negotiate, 401 Negotiate with reject token, 401 other scheme, 302 same host, 302 other host, 500} followed by each constant tail is enumerated; method {GET, HEAD, POST, PUT}, body size {0, 1, 4 KiB, 1 MiB}, how much of the body the server reads before answering {all, k bytes, none}, explicit or URL-derived SPN (port, trailing dot, CNAME, failed look-up, upper case) and the etype of the service ticket are drawn per case; seeded runs also spell the challenge in the other legal forms (second header field after Basic, list in one field, lower case), hand Do a request that already carries an Authorization header, and reuse the client after earlier calls; distinct = distinct (script, tail, method, body class, read class, SPN class, outcome); non-trivial = the server sent at least one challenge or redirect",
		SweepQuick: scriptsUpTo(3), SweepThorough: scriptsUpTo(5),
		SeededQuick: 1500, SeededThorough: 60000,
		WorkloadProbes: []string{"challenged", "challenged-with-body", "early-response-before-body-read", "ever-challenging-tail", "ever-redirecting-tail", "periodic-tail", "reused-client", "reused-client-after-redirect-limit", "reused-client-after-ticket-expiry", "challenge-in-other-legal-form", "request-arrives-with-authorization-header", "redirect-after-reuse", "cross-realm-service", "redirect-then-challenge", "spn-derived-via-cname", "spn-derived-lookup-failed", "token-checked-by-acceptor", "kdc-unreachable-during-the-call", "response-bodies-that-never-end"},
		Components: map[string]string{
			"spnego.Client (Do/Get/Post/Head), SetSPNEGOHeader, setRequestSPN, SPNEGOClient, NewNegTokenInitKRB5, NewKRB5TokenAPREQ, krb5 client, token encoders": "real",
			"net/http client (redirect policy, cookie jar)": "real",
			"HTTP server": "stub: scripted RoundTripper that may stop reading the body early",
			"DNS (net.LookupCNAME in spnego/http.go)": "shim: simulated resolver",
			"acceptor": "stub: refkrb holding the service key (decodes the token, decrypts ticket and authenticator, checks the 0x8003 checksum and the service principal)",
			"KDC":      "stub: refkdc",
		},
		Assumptions: []string{
			"the bound on requests per call is 32, far above anything reasonable and not taken from the code",
			"a server that answers before it has read the whole request body is legal HTTP; the transport then closes the request body",
			"after a 302 for a POST net/http itself turns the request into a body-less GET; body equality is judged only for requests that carry the Authorization header in answer to a challenge of the same method",
		},
		Exhaustive:    true,
		ChildTimeoutS: 120,
	}
}

func Gen(caseID, tier string) (json.RawMessage, error) {
	kind, n, err := engine.ParseCase(caseID)
	if err != nil {
		return nil, err
	}
	var r *core.Rng
	tp := Tape{Engine: "c18"}
	if kind == "sweep" {
		idx := int(n)
		tp.RunSeed = 0xc18<<40 | n
		tp.Tail = alphabet[idx%len(alphabet)]
		idx /= len(alphabet)
		l := 0
		for ; l <= 5; l++ {
			if idx < pow(len(alphabet), l) {
				break
			}
			idx -= pow(len(alphabet), l)
		}
		if l > 5 {
			return nil, fmt.Errorf("sweep index out of range")
		}
		for i := 0; i < l; i++ {
			tp.Script = append(tp.Script, alphabet[idx%len(alphabet)])
			idx /= len(alphabet)
		}
		r = core.NewRng(n).Derive("c18sweep")
	} else {
		r = core.NewRng(n).Derive("c18")
		tp.RunSeed = n
		l := r.Range(0, 6)
		for i := 0; i < l; i++ {
			tp.Script = append(tp.Script, alphabet[r.Intn(len(alphabet))])
		}
		if r.Chance(1, 2) && l > 0 {
			tp.Script[0] = "401-negotiate"
		}
		tp.Tail = alphabet[r.Intn(len(alphabet))]
		if r.Chance(1, 2) {
			tp.Tail = "200"
		}
	}
	if r.Chance(1, 6) {
		// a periodic tail: the server alternates for ever (challenge / redirect / ...)
		for k := r.Range(2, 3); k > 0; k-- {
			tp.Cycle = append(tp.Cycle, r.Pick("401-negotiate", "302-same", "302-other", "302-same", "401-reject-token", "500"))
		}
	}
	if kind == "seed" && r.Chance(1, 4) {
		// the challenge in another legal form
		form := func(k string) string {
			if k == "401-negotiate" && r.Chance(2, 3) {
				return challengeForms[r.Intn(len(challengeForms))]
			}
			return k
		}
		for i := range tp.Script {
			tp.Script[i] = form(tp.Script[i])
		}
		for i := range tp.Cycle {
			tp.Cycle[i] = form(tp.Cycle[i])
		}
		tp.Tail = form(tp.Tail)
	}
	tp.Etype = etypes[r.Intn(len(etypes))]
	tp.SPNMode = r.Pick("explicit", "derived", "derived")
	tp.Host = hosts[r.Intn(len(hosts))]
	if r.Chance(1, 2) {
		tp.Host = hosts[0]
	}
	tp.Method = r.Pick("GET", "GET", "POST", "POST", "HEAD", "PUT", "GET-with-body")
	tp.SelfRedirect = r.Chance(1, 3)
	if tp.Method == "POST" || tp.Method == "PUT" || tp.Method == "GET-with-body" {
		tp.BodySize = r.PickInt(0, 1, 4096, 4096, 1<<20)
		tp.ReadMode = r.Pick("all", "all", "some", "none")
		if tp.ReadMode == "some" && tp.BodySize > 0 {
			tp.ReadK = 1 + r.Intn(tp.BodySize)
			if r.Chance(1, 2) && tp.BodySize > 600 {
				tp.ReadK = 1 + r.Intn(600)
			}
		}
	}
	// a reused client: what earlier calls left behind (redirect history, cookies, cached tickets)
	// must not change what the statement promises for this call
	if r.Chance(1, 4) {
		for k := r.Range(1, 3); k > 0; k-- {
			tp.Warm = append(tp.Warm, r.Pick("302-same", "302-same", "302-other", "401-negotiate", "200", "500"))
		}
	}
	if len(tp.Warm) > 0 && r.Chance(1, 2) {
		tp.Warm[0] = "401-negotiate" // an earlier call that authenticated: its ticket is in the cache
		tp.GapS = int64(r.PickInt(1, 300, 599, 601, 660, 3600))
	}
	tp.API = "do"
	switch tp.Method {
	case "GET":
		tp.API = r.Pick("do", "get", "header")
	case "POST":
		tp.API = r.Pick("do", "post")
	case "HEAD":
		tp.API = r.Pick("do", "head")
	}
	if kind == "seed" && tp.API == "do" && r.Chance(1, 6) {
		tp.PreAuth = r.Pick("stale", "stale", "basic")
	}
	if kind == "seed" && r.Chance(1, 5) {
		// the bodies of the server's responses belong to the peer: they may never end
		tp.RespBody = "endless"
	}
	if kind == "seed" && r.Chance(1, 6) {
		// the KDCs cannot be reached while the judged call runs: whatever the server answers, the call
		// still has to end, with an error or with a response, after a bounded number of requests
		tp.KDCDown = r.Pick("refuse", "refuse", "silent", "close")
	}
	return core.MustJSON(tp), nil
}
