package c18

import (
	"bytes"
	"encoding/base64"
	"encoding/binary"
	"encoding/json"
	"errors"
	"fmt"
	"io"
	"net/http"
	"strings"
	"testing"
	"time"

	"github.com/jcmturner/gokrb5/v8/client"
	"github.com/jcmturner/gokrb5/v8/spnego"

	"verifsim/core"
	"verifsim/engine"
	"verifsim/refkdc"
	"verifsim/refkrb/rk"
	"verifsim/shim/simnet"
	"verifsim/shim/simsync"
	"verifsim/simrt"
	"verifsim/world"
	"verifsim/world/gk"
)

type eng struct{}

func (eng) Meta() core.Meta                             { return Meta() }
func (eng) Gen(c, tier string) (json.RawMessage, error) { return Gen(c, tier) }
func (eng) Run(tape json.RawMessage, res *core.Result)  { run(tape, res) }
func TestSim(t *testing.T)                              { engine.Main(t, eng{}) }

const maxRequests = 32

type seen struct {
	N       int    `json:"n"`
	Method  string `json:"method"`
	Host    string `json:"host"`
	URLHost string `json:"url_host"`
	Path    string `json:"path"`
	Auth    string `json:"-"`
	HasAuth bool   `json:"has_auth"`
	BodyLen int    `json:"body_read"`
	BodyEOF bool   `json:"body_eof"`
	HadBody bool   `json:"had_body"`
	at      time.Time
	body    []byte
	Resp    string `json:"resp"`
}

type server struct {
	tp      *Tape
	log     []*seen
	excess  bool
	warm    string // non-empty during an earlier call of a reused client: answer this kind for ever
	endless int    // responses sent with a body that never ends
	drained string // kind of the first response whose endless body was read beyond 4 MiB
}

func (s *server) RoundTrip(req *http.Request) (*http.Response, error) {
	n := len(s.log)
	if n >= maxRequests {
		s.excess = true
		if req.Body != nil {
			req.Body.Close()
		}
		return nil, errors.New("simulated server: request budget of the run exhausted")
	}
	simrt.Yield("http " + req.Method + " " + req.URL.Host)
	e := &seen{N: n, Method: req.Method, Host: req.Host, URLHost: req.URL.Host, Path: req.URL.Path, Auth: req.Header.Get("Authorization"), at: time.Now().UTC()}
	e.HasAuth = e.Auth != ""
	kind := s.tp.Tail
	if len(s.tp.Cycle) > 0 {
		kind = s.tp.Cycle[(n+len(s.tp.Cycle)*8-len(s.tp.Script)%len(s.tp.Cycle))%len(s.tp.Cycle)]
	}
	if n < len(s.tp.Script) {
		kind = s.tp.Script[n]
	}
	if s.warm != "" {
		kind = s.warm
	}
	e.Resp = kind
	e.HadBody = req.Body != nil && req.Body != http.NoBody
	if req.Body != nil {
		// how much of the body does the server consume before it answers?  A success consumes it
		// all; challenges, redirects and errors may come early.
		mode := s.tp.ReadMode
		if kind == "200" || mode == "" {
			mode = "all"
		}
		switch mode {
		case "all":
			b, err := io.ReadAll(req.Body)
			e.body, e.BodyEOF = b, err == nil
		case "some":
			b := make([]byte, s.tp.ReadK)
			k, _ := io.ReadFull(req.Body, b)
			e.body = b[:k]
		case "none":
		}
		e.BodyLen = len(e.body)
		req.Body.Close() // the transport always closes the request body
	}
	s.log = append(s.log, e)
	h := http.Header{}
	code := 200
	body := "ok"
	switch kind {
	case "401-negotiate":
		code = 401
		h.Set("WWW-Authenticate", "Negotiate")
		body = "Unauthorised.\n"
	case "401-negotiate-after-basic":
		code = 401
		h.Add("WWW-Authenticate", `Basic realm="sim"`)
		h.Add("WWW-Authenticate", "Negotiate")
	case "401-negotiate-in-list":
		code = 401
		h.Set("WWW-Authenticate", `Negotiate, Basic realm="sim"`)
	case "401-negotiate-lowercase":
		code = 401
		h.Set("WWW-Authenticate", "negotiate")
	case "401-reject-token":
		code = 401
		h.Set("WWW-Authenticate", "Negotiate oQcwBaADCgEC")
	case "401-basic":
		code = 401
		h.Set("WWW-Authenticate", `Basic realm="sim"`)
	case "302-same":
		code = 302
		h.Set("Location", fmt.Sprintf("/next%d", n))
		if s.tp.SelfRedirect {
			h.Set("Location", req.URL.Path) // the URL just requested
		}
	case "302-other":
		code = 302
		h.Set("Location", fmt.Sprintf("http://other.sim.test/from%d", n))
	case "500":
		code = 500
	}
	if req.Method == "HEAD" {
		body = ""
	}
	if s.tp.RespBody == "endless" && req.Method != "HEAD" {
		s.endless++
		return &http.Response{StatusCode: code, Status: fmt.Sprintf("%d %s", code, http.StatusText(code)), Proto: "HTTP/1.1", ProtoMajor: 1, ProtoMinor: 1,
			Header: h, Body: &endlessBody{s: s, kind: kind}, ContentLength: -1, TransferEncoding: []string{"chunked"}, Request: req}, nil
	}
	return &http.Response{StatusCode: code, Status: fmt.Sprintf("%d %s", code, http.StatusText(code)), Proto: "HTTP/1.1", ProtoMajor: 1, ProtoMinor: 1,
		Header: h, Body: io.NopCloser(strings.NewReader(body)), ContentLength: int64(len(body)), Request: req}, nil
}

// endlessBody is a response body that never ends.  Whoever keeps reading it is stopped after
// 4 MiB (net/http itself reads at most 2 KiB of a response it does not hand to the caller), and the
// server remembers which response it was.
type endlessBody struct {
	s    *server
	kind string
	n    int64
}

func (b *endlessBody) Read(p []byte) (int, error) {
	if b.n > 4<<20 {
		if b.s.drained == "" {
			b.s.drained = b.kind
		}
		return 0, io.ErrUnexpectedEOF
	}
	for i := range p {
		p[i] = 'x'
	}
	b.n += int64(len(p))
	return len(p), nil
}

func (b *endlessBody) Close() error { return nil }

func codeOf(kind string) int {
	var c int
	fmt.Sscanf(kind, "%d", &c)
	return c
}

// canonical host per the simulated DNS (what an acceptor's administrator registered the SPN for)
func canonical(host string, cname map[string]string) string {
	h := host
	if i := strings.LastIndex(h, ":"); i > 0 && !strings.Contains(h[i:], "]") {
		h = h[:i]
	}
	h = strings.TrimSuffix(h, ".")
	if c, ok := cname[h]; ok && !strings.HasPrefix(c, "!") {
		h = strings.TrimSuffix(c, ".")
	}
	// the host part of a host-based principal name is lower case (RFC 4120 6.2.1), URL hosts are
	// case-insensitive: whether the look-up succeeded or not
	return strings.ToLower(h)
}

// preAuthValue: the Authorization header a caller hands to Do.
func preAuthValue(kind string) string {
	switch kind {
	case "stale":
		return "Negotiate YIIB-left-over-from-an-earlier-use-of-this-request"
	case "basic":
		return "Basic c2ltOnNpbQ=="
	}
	return ""
}

type detail struct {
	Script []string `json:"script"`
	Tail   string   `json:"tail"`
	Method string   `json:"method"`
	API    string   `json:"api"`
	Body   int      `json:"body_size"`
	Read   string   `json:"read_mode"`
	SPN    string   `json:"spn_mode"`
	Host   string   `json:"host"`
	Err    string   `json:"err,omitempty"`
	Status int      `json:"status,omitempty"`
	Seen   []*seen  `json:"requests"`
	Why    string   `json:"why,omitempty"`
}

func run(tapeJSON json.RawMessage, res *core.Result) {
	var tp Tape
	if err := json.Unmarshal(tapeJSON, &tp); err != nil {
		res.Verdict, res.Harness = "invalid", err.Error()
		return
	}
	okEt := false
	for _, e := range etypes {
		okEt = okEt || e == tp.Etype
	}
	for _, wk := range tp.Warm {
		ok := false
		for _, a := range alphabet {
			ok = ok || a == wk
		}
		if !ok || len(tp.Warm) > 4 {
			res.Verdict, res.Harness = "invalid", "warm-up kind"
			return
		}
	}
	if !okEt || len(tp.Script) > 8 || tp.BodySize < 0 || tp.BodySize > 2<<20 || tp.Host == "" || strings.ContainsAny(tp.Host, " /\\@") {
		res.Verdict, res.Harness = "invalid", "shape"
		return
	}
	valid := map[string]bool{}
	for _, a := range alphabet {
		valid[a] = true
	}
	for _, a := range challengeForms {
		valid[a] = true
	}
	if len(tp.Cycle) > 4 {
		res.Verdict, res.Harness = "invalid", "cycle"
		return
	}
	for _, s := range append(append(append([]string{}, tp.Script...), tp.Tail), tp.Cycle...) {
		if !valid[s] {
			res.Verdict, res.Harness = "invalid", "response kind"
			return
		}
	}
	simsync.Passive = true
	gk.Seed(tp.RunSeed)
	// ---- world
	net := world.NewNet()
	net.CNAME = map[string]string{"host.sim.test": "host.sim.test.", "alias.sim.test": "Host.sim.test.", "nodns.sim.test": "!", "NoDNS.sim.test": "!", "other.sim.test": "other.sim.test.",
		"upper.sim.test": "upper.sim.test.", "UPPER.sim.test": "upper.sim.test."}
	pol := refkdc.Policy{}
	if tp.GapS > 0 {
		pol.MaxLifeS = 600 // tickets short enough for the gap between two calls to outlive them
	}
	kdc := refkdc.New("SIM.TEST", tp.RunSeed, pol)
	// a second realm, trusted by the first: the service far.other.test lives there
	other := refkdc.New("OTHER.TEST", tp.RunSeed+1, pol)
	refkdc.Link(kdc, other)
	other.AddService("HTTP/far.other.test")
	net.CNAME["far.other.test"] = "far.other.test."
	kdc.AddKeyUser("alice", 3)
	for _, s := range []string{"HTTP/host.sim.test", "HTTP/other.sim.test", "HTTP/nodns.sim.test", "HTTP/upper.sim.test", "HTTP/explicit.sim.test"} {
		kdc.AddService(s)
	}
	gk.Wire(net, kdc, []string{"10.0.0.1:88"}, nil)
	gk.Wire(net, other, []string{"10.0.1.1:88"}, nil)
	simnet.Install(net)
	yes := true
	et := gk.EtypeNames[tp.Etype]
	cm := gk.ConfModel{DefaultRealm: "SIM.TEST", NoAddresses: &yes, TktEtypes: []string{et}, TGSEtypes: []string{et},
		Realms: map[string][]string{"SIM.TEST": {"10.0.0.1:88"}, "OTHER.TEST": {"10.0.1.1:88"}}, DomainRealm: map[string]string{".sim.test": "SIM.TEST", ".other.test": "OTHER.TEST"}}
	if tp.GapS > 0 {
		cm.RenewLifetime, cm.TicketLifetime = "1d", "600"
	}
	cfg, _, err := cm.Parse()
	if err != nil {
		res.Verdict, res.Harness = "harness-error", "krb5.conf: "+err.Error()
		return
	}
	kt, _, err := gk.UserKeytab(kdc, "alice")
	if err != nil {
		res.Verdict, res.Harness = "harness-error", "keytab: "+err.Error()
		return
	}
	cl := client.NewWithKeytab("alice", "SIM.TEST", kt, cfg)
	srv := &server{tp: &tp}
	spn := ""
	if tp.SPNMode == "explicit" {
		spn = "HTTP/explicit.sim.test"
	}
	body := core.NewRng(tp.RunSeed).Derive("body").Bytes(tp.BodySize)
	var resp *http.Response
	var opErr error
	var panicMsg string
	var headerTok string
	warmExcess, warmRedirectLimit := false, false
	done := simrt.Spawn(1, "app", simrt.Sched{Mode: "min"}, func() {
		if e := cl.Login(); e != nil {
			res.Verdict, res.Harness = "harness-error", "login over a healthy network failed: "+e.Error()
			return
		}
		hc := &http.Client{Transport: srv}
		sc := spnego.NewClient(cl, hc, spn)
		url := "http://" + tp.Host + "/app"
		for _, wk := range tp.Warm {
			srv.warm = wk
			wp, wframe, wmsg := engine.Guard(func() {
				if r, e := sc.Get("http://" + tp.Host + "/earlier"); e == nil && r != nil {
					r.Body.Close()
				}
			})
			if wp {
				panicMsg = wframe + ": " + wmsg
			}
			if len(srv.log) >= 10 {
				warmRedirectLimit = true
			}
			warmExcess = warmExcess || srv.excess
			srv.warm, srv.log, srv.excess = "", nil, false
		}
		if tp.GapS > 0 {
			// time passes between the earlier calls and this one: cached tickets (10 minutes of
			// life, renewable) may have expired by now
			simrt.SleepExact(tp.GapS * int64(time.Second))
		}
		if tp.KDCDown != "" {
			b := world.Behaviour{Kind: "refuse"}
			switch tp.KDCDown {
			case "silent":
				b.Kind = "silent"
			case "close":
				b = world.Behaviour{Kind: "close", Arg: 0}
			}
			net.Down.Store(&b)
			res.Probes["kdc-unreachable-during-the-call"]++
		}
		p, frame, msg := engine.Guard(func() {
			var rdr io.Reader
			method := tp.Method
			if method == "GET-with-body" {
				method = "GET"
			}
			if tp.BodySize > 0 || tp.Method == "POST" || tp.Method == "PUT" {
				rdr = bytes.NewReader(body)
			}
			switch tp.API {
			case "get":
				resp, opErr = sc.Get(url)
			case "head":
				resp, opErr = sc.Head(url)
			case "post":
				resp, opErr = sc.Post(url, "application/octet-stream", rdr)
			case "header":
				rq, _ := http.NewRequest("GET", url, nil)
				opErr = spnego.SetSPNEGOHeader(cl, rq, spn)
				headerTok = rq.Header.Get("Authorization")
			default:
				rq, e := http.NewRequest(method, url, rdr)
				if e != nil {
					opErr = e
					return
				}
				if v := preAuthValue(tp.PreAuth); v != "" {
					rq.Header.Set("Authorization", v)
				}
				resp, opErr = sc.Do(rq)
			}
		})
		if p {
			panicMsg = frame + ": " + msg
		}
	})
	if late := simrt.WaitTimeout(24*time.Hour, done); len(late) > 0 {
		engine.Violate(res, "no-return-within-a-simulated-day", detail{Script: tp.Script, Tail: tp.Tail})
		return
	}
	if res.Verdict != "ok" {
		return
	}
	if done.Panic != nil {
		// a stack overflow of unbounded recursion would kill the process; an ordinary panic lands here
		res.Verdict, res.Harness = "harness-error", fmt.Sprintf("app task panicked: %v\n%s", done.Panic, done.Stack)
		return
	}
	d := detail{Script: tp.Script, Tail: tp.Tail, Method: tp.Method, API: tp.API, Body: tp.BodySize, Read: tp.ReadMode, SPN: tp.SPNMode, Host: tp.Host, Seen: srv.log}
	if opErr != nil {
		d.Err = opErr.Error()
		if len(d.Err) > 300 {
			d.Err = d.Err[:300]
		}
	}
	if resp != nil {
		d.Status = resp.StatusCode
	}
	shape := shapeOf(&tp)
	bodyClass := "no-body"
	if tp.BodySize > 0 {
		bodyClass = "body-" + tp.ReadMode
	}
	viol := func(clause, why string) {
		d.Why = why
		sig := clause + "|" + shape
		if clause == "body-differs" {
			sig = clause + "|" + bodyClass
		}
		engine.Violate(res, sig, d)
	}
	if panicMsg != "" {
		viol("panic|"+strings.SplitN(panicMsg, ":", 2)[0], panicMsg)
	}
	fresh := map[string]bool{}
	acc := &acceptor{kdc: kdc, other: other, now: time.Now().UTC(), fresh: fresh}
	res.Evals = 1
	// (3) bounded
	if srv.excess {
		viol("unbounded", fmt.Sprintf("more than %d requests in one call", maxRequests))
	}
	if warmExcess {
		viol("unbounded", fmt.Sprintf("more than %d requests in an earlier call of the reused client", maxRequests))
	}
	if tp.GapS > 600 {
		res.Probes["reused-client-after-ticket-expiry"]++
	}
	if strings.HasSuffix(tp.Host, ".other.test") {
		res.Probes["cross-realm-service"]++
	}
	if len(tp.Warm) > 0 {
		res.Probes["reused-client"]++
		if warmRedirectLimit {
			res.Probes["reused-client-after-redirect-limit"]++
		}
	}
	// what the caller left in the Authorization header is not a token of this call
	ownAuth := func(e *seen) bool { return e.Auth != "" && e.Auth != preAuthValue(tp.PreAuth) }
	if tp.PreAuth != "" {
		res.Probes["request-arrives-with-authorization-header"]++
	}
	// (1) + (2): what follows a bare Negotiate challenge
	challenged := false
	for i, e := range srv.log {
		if IsChallenge(e.Resp) {
			challenged = true
			res.Probes["challenged"]++
			if e.Resp != "401-negotiate" {
				res.Probes["challenge-in-other-legal-form"]++
			}
			if tp.BodySize > 0 {
				res.Probes["challenged-with-body"]++
				if e.BodyLen < tp.BodySize && e.HadBody {
					res.Probes["early-response-before-body-read"]++
				}
			}
			if i > 0 && strings.HasPrefix(srv.log[i-1].Resp, "302") {
				res.Probes["redirect-then-challenge"]++
			}
			if i+1 >= len(srv.log) {
				// the call ended here.  Handing the 401 back is fine; so is an error - unless the
				// challenge answered a request without a token and the client then failed to produce
				// one although KDC, network and name resolution are healthy
				if !ownAuth(e) && opErr != nil && panicMsg == "" && !srv.excess && tp.KDCDown == "" {
					viol("challenge-not-answered", "the call ended with an error instead of a retry carrying a token: "+opErr.Error())
				}
				if !ownAuth(e) && opErr == nil && panicMsg == "" && !srv.excess && tp.KDCDown == "" {
					// "when a server answers 401 with a Negotiate challenge, the client retries with an
					// Authorization header": this challenge answered a request that carried no token of
					// this call, and the 401 was handed back without a retry
					d.Why = "the 401 was returned without a retry carrying a token"
					cause := "bare-negotiate"
					switch {
					case e.Auth != "":
						cause = "request-arrived-with-" + tp.PreAuth + "-authorization-header"
					case e.Resp != "401-negotiate":
						cause = "challenge-form-" + strings.TrimPrefix(e.Resp, "401-negotiate-")
					}
					engine.Violate(res, "challenge-not-answered|401-returned-without-retry|"+cause, d)
				}
				continue
			}
			nx := srv.log[i+1]
			if ownAuth(e) {
				continue // the challenge answered an authenticated request: what follows is the client's choice
			}
			if !strings.HasPrefix(nx.Auth, "Negotiate ") {
				viol("no-token-after-challenge", fmt.Sprintf("request %d follows a bare Negotiate challenge without an Authorization: Negotiate header", nx.N))
				continue
			}
			want := spn
			if want == "" {
				want = "HTTP/" + canonical(e.URLHost, net.CNAME)
			}
			res.Evals++
			res.Probes["token-checked-by-acceptor"]++
			acc.now = nx.at
			if why := acc.check(nx.Auth, want); why != "" {
				clause := "invalid-token"
				if strings.HasPrefix(why, "spn:") {
					clause = "wrong-spn"
				}
				viol(clause, why)
			}
			if nx.Method == e.Method && e.HadBody && tp.BodySize > 0 {
				// the retry must carry the original body
				if nx.Resp == "200" || tp.ReadMode == "all" {
					if !bytes.Equal(nx.body, body) {
						viol("body-differs", fmt.Sprintf("request %d carried %d of %d body bytes (equal prefix: %v)", nx.N, len(nx.body), len(body), bytes.HasPrefix(body, nx.body)))
					}
				} else if !bytes.HasPrefix(body, nx.body) {
					viol("body-differs", fmt.Sprintf("request %d: the %d bytes the server read are not a prefix of the original body", nx.N, len(nx.body)))
				}
			}
		}
	}
	if tp.API == "header" && opErr == nil {
		want := spn
		if want == "" {
			want = "HTTP/" + canonical(tp.Host, net.CNAME)
		}
		res.Probes["token-checked-by-acceptor"]++
		if why := acc.check(headerTok, want); why != "" {
			clause := "invalid-token"
			if strings.HasPrefix(why, "spn:") {
				clause = "wrong-spn"
			}
			viol(clause, why)
		}
	}
	// (3b) a redirect is followed: an error instead is justified by the responses of this call only (a
	// long chain of redirects), never by what earlier calls of a reused client were answered
	if n := len(srv.log); n > 0 && strings.HasPrefix(srv.log[n-1].Resp, "302") && panicMsg == "" && !srv.excess && tp.API != "header" {
		redirects := 0
		for _, e := range srv.log {
			if strings.HasPrefix(e.Resp, "302") {
				redirects++
			}
		}
		if len(tp.Warm) > 0 {
			res.Probes["redirect-after-reuse"]++
		}
		if redirects < 5 && opErr != nil && tp.KDCDown == "" {
			d.Why = fmt.Sprintf("the call ended after %d redirect(s) of this call with: %v", redirects, opErr)
			engine.Violate(res, "redirect-not-followed|reused-client", d)
		}
	}
	// (3c) the body of a response the call does not hand back is the peer's: reading it to its end means
	// never returning when it has none
	if srv.endless > 0 {
		res.Probes["response-bodies-that-never-end"]++
	}
	if srv.drained != "" {
		d.Why = "more than 4 MiB of the body of a " + srv.drained + " response were read inside the call"
		engine.Violate(res, "response-body-read-without-bound|"+srv.drained, d)
	}
	// (4) the value returned
	if tp.API != "header" && panicMsg == "" {
		switch {
		case opErr == nil && resp == nil:
			viol("wrong-return", "neither a response nor an error")
		case opErr == nil && len(srv.log) > 0:
			last := srv.log[len(srv.log)-1]
			if resp.StatusCode != codeOf(last.Resp) {
				viol("wrong-return", fmt.Sprintf("returned status %d, the server's last response was %s", resp.StatusCode, last.Resp))
			}
		}
	}
	if len(tp.Cycle) > 0 {
		res.Probes["periodic-tail"]++
	}
	if IsChallenge(tp.Tail) {
		res.Probes["ever-challenging-tail"]++
	}
	if strings.HasPrefix(tp.Tail, "302") {
		res.Probes["ever-redirecting-tail"]++
	}
	if tp.SPNMode == "derived" && challenged {
		switch {
		case strings.HasPrefix(tp.Host, "alias."):
			res.Probes["spn-derived-via-cname"]++
		case strings.HasPrefix(strings.ToLower(tp.Host), "nodns."):
			res.Probes["spn-derived-lookup-failed"]++
		}
	}
	for _, e := range srv.log {
		if e.Resp != "200" && e.Resp != "500" {
			res.Nontrivial = true
		}
	}
	out := "err"
	if opErr == nil && resp != nil {
		out = fmt.Sprint(resp.StatusCode)
	}
	for _, e := range srv.log {
		if e.Resp != "200" {
			res.Faults["server-answers-"+e.Resp]++
		}
		if e.HadBody && e.BodyLen < tp.BodySize {
			res.Faults["server-answers-before-reading-the-body"]++
		}
	}
	if tp.GapS > 0 {
		res.Faults["clock-advanced-between-calls"]++
	}
	tailName := tp.Tail
	if len(tp.Cycle) > 0 {
		tailName = "(" + strings.Join(tp.Cycle, ",") + ")*"
	}
	res.Class = fmt.Sprintf("%s>%s|%s|%s|%s|%s|n=%d|%s", strings.Join(tp.Script, ","), tailName, tp.Method, bodyClass, tp.SPNMode, tp.Host, len(srv.log), out)
	res.Stats["http_requests"] = int64(len(srv.log))
	simrt.Logf("script=%v tail=%s method=%s api=%s requests=%d outcome=%s err=%s", tp.Script, tp.Tail, tp.Method, tp.API, len(srv.log), out, d.Err)
}

func shapeOf(tp *Tape) string {
	if len(tp.Cycle) > 0 {
		t := *tp
		t.Cycle = nil
		return "periodic-tail+" + shapeOf(&t)
	}
	if len(tp.Warm) > 0 {
		t := *tp
		t.Warm = nil
		return "reused-client+" + shapeOf(&t)
	}
	switch {
	case IsChallenge(tp.Tail):
		return "ever-challenging"
	case strings.HasPrefix(tp.Tail, "302"):
		return "ever-redirecting"
	}
	hasCh, hasRd := false, false
	for _, s := range tp.Script {
		hasCh = hasCh || IsChallenge(s)
		hasRd = hasRd || strings.HasPrefix(s, "302")
	}
	switch {
	case hasCh && hasRd:
		return "challenge-and-redirect"
	case hasCh:
		return "challenge"
	case hasRd:
		return "redirect"
	}
	return "plain"
}

// ---- the independent acceptor
type acceptor struct {
	kdc   *refkdc.KDC
	other *refkdc.KDC // the realm of services under .other.test
	now   time.Time
	fresh map[string]bool
}

// check returns "" when an acceptor holding the key of wantSPN accepts the header value.
func (a *acceptor) check(hdr, wantSPN string) string {
	if !strings.HasPrefix(hdr, "Negotiate ") {
		return "no Negotiate header"
	}
	raw, err := base64.StdEncoding.DecodeString(hdr[len("Negotiate "):])
	if err != nil {
		return "base64: " + err.Error()
	}
	pi, err := rk.DecNegTokenInit(raw)
	if err != nil {
		return "NegTokenInit: " + err.Error()
	}
	if len(pi.Mechs) == 0 || (pi.Mechs[0] != rk.OIDStrKRB5 && pi.Mechs[0] != rk.OIDStrMSKRB5) {
		return fmt.Sprintf("mechanism list %v does not start with Kerberos 5", pi.Mechs)
	}
	if pi.MechToken == nil {
		return "no mechToken"
	}
	tok, msg, err := rk.DecKRB5Token(pi.MechToken)
	if err != nil {
		return "mech token: " + err.Error()
	}
	if !bytes.Equal(tok, rk.TokAPReq) {
		return fmt.Sprintf("TOK_ID %x is not AP-REQ", tok)
	}
	ap, err := rk.DecAPReq(msg)
	if err != nil {
		return "AP-REQ: " + err.Error()
	}
	if ap.Ticket.SName.String() != wantSPN {
		return fmt.Sprintf("spn: ticket is for %s, the acceptor is %s", ap.Ticket.SName.String(), wantSPN)
	}
	home := a.kdc
	if strings.HasSuffix(wantSPN, ".other.test") && a.other != nil {
		home = a.other
	}
	if ap.Ticket.Realm != home.Realm {
		return "spn: ticket realm " + ap.Ticket.Realm
	}
	p := home.DB[wantSPN]
	if p == nil {
		return "spn: acceptor principal unknown to the KDC: " + wantSPN
	}
	key, ok := p.KeyFor(home.Realm, int(ap.Ticket.Enc.Etype))
	if !ok {
		return "no service key for the ticket's etype"
	}
	pt, err := rk.Open(ap.Ticket.Enc, key.Key, rk.KUTicket)
	if err != nil {
		return "ticket does not decrypt under the service key: " + err.Error()
	}
	tk, err := rk.DecEncTicketPart(pt)
	if err != nil {
		return "EncTicketPart: " + err.Error()
	}
	if tk.CName.String() != "alice" || tk.CRealm != "SIM.TEST" {
		return "ticket client " + tk.CName.String() + "@" + tk.CRealm
	}
	if a.now.After(tk.EndTime) {
		return "ticket expired"
	}
	ab, err := rk.Open(ap.Auth, tk.Key, rk.KUAPReqAuth)
	if err != nil {
		return "authenticator does not decrypt under the session key with usage 11: " + err.Error()
	}
	au, err := rk.DecAuthenticator(ab)
	if err != nil {
		return "Authenticator: " + err.Error()
	}
	if !au.CName.Equal(tk.CName) || au.CRealm != tk.CRealm {
		return "authenticator client does not match the ticket"
	}
	ct := au.CTime.Add(time.Duration(au.Cusec) * time.Microsecond)
	if d := a.now.Sub(ct); d > 5*time.Minute || d < -5*time.Minute {
		return fmt.Sprintf("authenticator time off by %v", d)
	}
	id := fmt.Sprintf("%d", ct.UnixNano())
	if a.fresh[id] {
		return "authenticator reused (same client time and microseconds as an earlier token of this run)"
	}
	a.fresh[id] = true
	if au.Cksum == nil || au.Cksum.Type != 0x8003 {
		return "authenticator lacks the GSS-API checksum 0x8003"
	}
	if len(au.Cksum.Sum) < 24 || binary.LittleEndian.Uint32(au.Cksum.Sum[:4]) != 16 {
		return "GSS-API checksum malformed (RFC 4121 4.1.1)"
	}
	return ""
}
