// Package c20 is the engine for property C20: keys and passwords never leak into diagnostics,
// errors, logs or encodings.  It re-runs slices of the other engines' worlds (client exchanges
// under reply and network faults, service verification of valid and defective requests, the
// SPNEGO wrapper, torn and bit-rotted secret-bearing files) with a taint monitor armed: every
// planted secret is searched - raw, hex and base64 in any alignment - in every log line, error
// string, diagnostic dump, re-encoding and byte sequence handed to the network.
package c20

import (
	"bytes"
	"encoding/base64"
	"encoding/hex"
	"encoding/json"
	"fmt"
	"log"
	"net/http"
	"net/http/httptest"
	"os"
	"strings"
	"syscall"
	"testing"
	"time"

	"github.com/jcmturner/gokrb5/v8/client"
	"github.com/jcmturner/gokrb5/v8/credentials"
	"github.com/jcmturner/gokrb5/v8/keytab"
	"github.com/jcmturner/gokrb5/v8/messages"
	"github.com/jcmturner/gokrb5/v8/service"
	"github.com/jcmturner/gokrb5/v8/spnego"
	"github.com/jcmturner/gokrb5/v8/test/testdata"
	"github.com/jcmturner/gokrb5/v8/types"

	"verifsim/core"
	"verifsim/engine"
	"verifsim/refkdc"
	"verifsim/refkrb/rk"
	"verifsim/shim/simnet"
	"verifsim/shim/simsync"
	"verifsim/simrt"
	"verifsim/world"
	"verifsim/world/gk"
)

type Tape struct {
	Engine   string           `json:"engine"`
	RunSeed  uint64           `json:"run_seed"`
	Scenario string           `json:"scenario"`       // file | client | service | http
	File     string           `json:"file,omitempty"` // keytab-user | keytab-service | ccache
	Mode     string           `json:"mode,omitempty"` // prefix | subst
	From     int              `json:"from,omitempty"`
	Count    int              `json:"count,omitempty"`
	Cred     string           `json:"cred,omitempty"`
	Etype    int              `json:"etype,omitempty"`
	Preauth  bool             `json:"preauth,omitempty"`
	Perturb  []refkdc.Perturb `json:"perturb,omitempty"`
	Net      string           `json:"net,omitempty"` // "" | refuse | close | silent | krberror
	NetArg   int64            `json:"net_arg,omitempty"`
	Defects  []world.Defect   `json:"defects,omitempty"`
	Subkey   bool             `json:"subkey,omitempty"`
	S2KAll   bool             `json:"s2k_all,omitempty"` // the KDC sends s2kparams for every etype
	PAC      string           `json:"pac,omitempty"`     // service/http: the ticket carries a PAC (valid | flipped | wrongkey | sigflipped | truncated | nosig | noinfo)
}

type eng struct{}

func (eng) Meta() core.Meta                             { return meta() }
func (eng) Gen(c, tier string) (json.RawMessage, error) { return gen(c, tier) }
func (eng) Run(tape json.RawMessage, res *core.Result)  { run(tape, res) }
func TestSim(t *testing.T) {
	if os.Getenv("VERIF_MODE") == "run" {
		// a damaged PAC can make the NDR decoder of the dependency rpc/v2 ask for tens of gigabytes (a
		// known finding of C04): let that fail at once instead of filling the sandbox's memory
		lim := syscall.Rlimit{Cur: 6 << 30, Max: 6 << 30}
		syscall.Setrlimit(syscall.RLIMIT_AS, &lim)
	}
	engine.Main(t, eng{})
}

var etypes = []int{18, 17, 19, 20, 16, 23}

var clientPerturbs = []refkdc.Perturb{{}, {Kind: "nonce", Arg: 1}, {Kind: "cname"}, {Kind: "crealm"}, {Kind: "sealed-sname"}, {Kind: "other-key"}, {Kind: "other-usage", Arg: 9},
	{Kind: "enc-flip"}, {Kind: "enc-trunc"}, {Kind: "authtime", Arg: 400_000_000_000}, {Kind: "enc-plain-garbage", Arg: 40},
	// a reply that decrypts but does not decode, with the session key still inside the plaintext
	{Kind: "enc-plain-subst", Arg: 0<<8 | 0x30}, {Kind: "enc-plain-subst", Arg: 1<<8 | 0x05}, {Kind: "enc-plain-subst", Arg: 5<<8 | 0xff}, {Kind: "enc-plain-prefix", Arg: 70},
	{Kind: "edata-other-etype"}, {Kind: "edata-unknown-etype"}, {Kind: "edata-empty-info2"},
	{Kind: "padata-garbage"}, {Kind: "tkt-sname-empty"}, {Kind: "msg-type", Arg: 13}}
var clientNets = []struct {
	k string
	a int64
}{{"", 0}, {"refuse", 0}, {"close", 4}, {"silent", 0}, {"krberror", 6}, {"krberror", 24}, {"krberror", 41}, {"krberror", 60}}
var serviceDefects = []string{"", "wrong-key", "wrong-kvno-label", "wrong-realm-label", "ticket-usage", "auth-usage-7", "auth-wrong-key", "flag-invalid", "tkt-flip", "tkt-trunc", "auth-flip", "auth-trunc",
	"cname-mismatch", "crealm-mismatch", "t-end", "t-start", "t-ctime-old", "t-ctime-future", "sname-empty", "replay"}

const fileChunk = 600

type caseT struct{ tp Tape }

func enumerate(tier string) []Tape {
	var out []Tape
	// files: every prefix; substitutions sampled (quick) / enumerated over an 4-value alphabet (thorough)
	for _, f := range []string{"keytab-user", "keytab-service", "ccache"} {
		for from := 0; from < 2400; from += fileChunk {
			out = append(out, Tape{Scenario: "file", File: f, Mode: "prefix", From: from, Count: fileChunk})
		}
		n := 2
		if tier == "thorough" {
			n = 16
		}
		for i := 0; i < n; i++ {
			out = append(out, Tape{Scenario: "file", File: f, Mode: "subst", From: i * fileChunk, Count: fileChunk})
		}
	}
	ets := etypes
	if tier != "thorough" {
		ets = []int{18, 23, 16}
	}
	for _, et := range ets {
		for _, cred := range []string{"keytab", "password"} {
			for pi, p := range clientPerturbs {
				t := Tape{Scenario: "client", Cred: cred, Etype: et, Preauth: pi%2 == 0}
				if p.Kind != "" {
					t.Perturb = []refkdc.Perturb{p}
				}
				out = append(out, t)
			}
			for _, n := range clientNets[1:] {
				out = append(out, Tape{Scenario: "client", Cred: cred, Etype: et, Preauth: true, Net: n.k, NetArg: n.a})
			}
			out = append(out, Tape{Scenario: "client", Cred: cred, Etype: et, Preauth: true, S2KAll: true}, Tape{Scenario: "client", Cred: cred, Etype: et, Preauth: false, S2KAll: true})
		}
		for di, d := range serviceDefects {
			t := Tape{Scenario: "service", Etype: et, Subkey: di%2 == 0}
			if d != "" {
				t.Defects = []world.Defect{{Kind: d, Arg: 1_000_000_000}}
			}
			out = append(out, t)
			t.Scenario = "http"
			out = append(out, t)
		}
	}
	return out
}

func meta() core.Meta {
	return core.Meta{
		Engine: "c20", Property: "C20", Level: "exploration",
		Rule:       "case = one run with the taint monitor armed: (file) a secret-bearing keytab or credential cache torn at every offset or bit-rotted and parsed; (client) login and service-ticket request with password or keytab credentials per etype under one reply perturbation or network fault, followed by every diagnostic surface (Client.Print/Diagnostics, Credentials/Config/Keytab JSON, Keytab.String as fmt prints it, Credentials gob, client log, returned errors, bytes sent); (service) verification of a valid or defective AP-REQ with a capturing logger, followed by re-encoding of what the library decrypted (APReq/Ticket Marshal, credentials JSON/gob); (http) the same through the SPNEGO wrapper with session store; seeded cases draw fresh secrets and combine up to two reply perturbations with a network fault (client) resp. up to two AP-REQ defects with a signed, damaged or missing PAC (service, http); distinct = distinct (scenario, file/etype/credential, fault); non-trivial = at least one secret was live in the process and at least one sink was scanned",
		SweepQuick: len(enumerate("quick")), SweepThorough: len(enumerate("thorough")),
		SeededQuick: 1500, SeededThorough: 40000,
		WorkloadProbes: []string{"error-path-reached", "file-torn", "decrypted-object-reencoded", "log-lines-scanned", "wire-bytes-scanned", "subkey-live", "session-key-live", "password-live"},
		Components: map[string]string{
			"client (Login, GetServiceTicket, Print, Diagnostics, logger), credentials (JSON, gob), config JSON, keytab (Unmarshal, JSON), CCache.Unmarshal, service.VerifyAPREQ with logger, spnego wrapper, APReq/Ticket Marshal after decryption": "real",
			"KDC, peers, network, session store": "stub (refkdc, refkrb, simnet)",
			"taint monitor":                      "harness: exact registry of planted secrets (password, long-term keys, session keys from the issue log, subkeys), searched raw / hex / base64 in every sink",
		},
		Assumptions: []string{
			"legitimate carriers are not sinks: the keytab and ccache serialisations themselves (Marshal, Write), plaintext handed to encryption; Keytab.String is a sink (it is what fmt and log print for a keytab and for any struct holding one)",
			"secrets are at least 16 random bytes (passwords 20 random characters), so a chance match is excluded",
		},
		Exhaustive:    false,
		ChildTimeoutS: 120,
	}
}

func gen(caseID, tier string) (json.RawMessage, error) {
	kind, n, err := engine.ParseCase(caseID)
	if err != nil {
		return nil, err
	}
	if kind == "seed" {
		// seeded scenarios: fresh secrets (they derive from the run seed) under combinations of the
		// faults that the sweep applies one at a time
		r := core.NewRng(n).Derive("c20seeded")
		tp := Tape{Engine: "c20", RunSeed: n >> 1, Etype: etypes[r.Intn(len(etypes))]}
		switch x := r.Intn(10); {
		case x < 1:
			tp.Scenario, tp.File, tp.Mode = "file", r.Pick("keytab-user", "keytab-service", "ccache"), r.Pick("prefix", "subst")
			tp.From, tp.Count = r.Intn(2400), 150
		case x < 5:
			tp.Scenario, tp.Cred, tp.Preauth, tp.S2KAll = "client", r.Pick("keytab", "password"), r.Chance(1, 2), r.Chance(1, 5)
			if tp.Cred == "password" && (tp.Etype == 19 || tp.Etype == 20) && r.Chance(2, 3) {
				tp.Etype = r.PickInt(17, 18, 23, 16)
			}
			for k := r.Intn(3); k > 0; k-- {
				p := clientPerturbs[1+r.Intn(len(clientPerturbs)-1)]
				dup := false
				for _, q := range tp.Perturb {
					dup = dup || q.Kind == p.Kind
				}
				if !dup {
					tp.Perturb = append(tp.Perturb, p)
				}
			}
			if r.Chance(1, 3) {
				nn := clientNets[1+r.Intn(len(clientNets)-1)]
				tp.Net, tp.NetArg = nn.k, nn.a
			}
		default:
			tp.Scenario, tp.Subkey = r.Pick("service", "http"), r.Chance(1, 2)
			for k := r.Intn(3); k > 0; k-- {
				d := serviceDefects[1+r.Intn(len(serviceDefects)-1)]
				dup := false
				for _, q := range tp.Defects {
					dup = dup || q.Kind == d
				}
				if !dup {
					tp.Defects = append(tp.Defects, world.Defect{Kind: d, Arg: int64(r.PickInt(-1_000_000_000, -1, 1, 1_000_000_000))})
				}
			}
			if r.Chance(1, 2) {
				tp.PAC = r.Pick("valid", "valid", "flipped", "wrongkey", "sigflipped", "truncated", "nosig", "noinfo")
			}
		}
		return core.MustJSON(tp), nil
	}
	if kind != "sweep" {
		return nil, fmt.Errorf("c20: unknown case kind")
	}
	cs := enumerate(tier)
	if int(n) >= len(cs) {
		return nil, fmt.Errorf("sweep index out of range")
	}
	tp := cs[n]
	tp.Engine = "c20"
	tp.RunSeed = core.NewRng(0xc20).Derive(fmt.Sprint(n)).U64() >> 1
	return core.MustJSON(tp), nil
}

const password = "Pw9-xK3mQ7vT2zL8rN5c"

type monitor struct {
	t   *world.Taint
	res *core.Result
	tp  *Tape
}

func (m *monitor) scan(sink, producer string, data []byte) {
	for _, l := range m.t.Scan(sink, data) {
		l.Sink = sink + " <- " + producer
		engine.Violate(m.res, fmt.Sprintf("leak|%s|%s|%s", sink, l.Kind, producer), map[string]interface{}{"leak": l, "scenario": m.tp.Scenario})
	}
}

func (m *monitor) scanErr(producer string, err error) {
	if err != nil {
		m.res.Probes["error-path-reached"]++
		m.scan("error", producer, []byte(err.Error()))
	}
}

func run(tapeJSON json.RawMessage, res *core.Result) {
	var tp Tape
	if err := json.Unmarshal(tapeJSON, &tp); err != nil {
		res.Verdict, res.Harness = "invalid", err.Error()
		return
	}
	if tp.Count < 0 || tp.Count > 4*fileChunk || tp.From < 0 || len(tp.Perturb) > 2 || len(tp.Defects) > 2 {
		res.Verdict, res.Harness = "invalid", "shape"
		return
	}
	simsync.Passive = true
	m := &monitor{t: world.NewTaint(), res: res, tp: &tp}
	res.Evals = 0
	switch tp.Scenario {
	case "file":
		runFile(&tp, m)
	case "client":
		runClient(&tp, m)
	case "service", "http":
		runService(&tp, m)
	default:
		res.Verdict, res.Harness = "invalid", "scenario"
		return
	}
	if res.Evals == 0 {
		res.Evals = 1
	}
	res.Stats["sinks_scanned"] = int64(m.t.Sinks)
	res.Stats["sink_bytes"] = m.t.Bytes
	res.Stats["secrets_planted"] = int64(len(m.t.Secrets))
	for _, s := range m.t.Secrets {
		switch s.Kind {
		case "subkey":
			res.Probes["subkey-live"]++
		case "session-key":
			res.Probes["session-key-live"]++
		case "password":
			res.Probes["password-live"]++
		}
	}
	res.Nontrivial = len(m.t.Secrets) > 0 && m.t.Sinks > 0
	fault := tp.Net
	for _, p := range tp.Perturb {
		fault += "+" + p.Kind
	}
	for _, d := range tp.Defects {
		fault += "+" + d.Kind
	}
	if tp.Net != "" {
		res.Faults["net-"+tp.Net]++
	}
	for _, p := range tp.Perturb {
		res.Faults["reply-"+p.Kind]++
	}
	for _, d := range tp.Defects {
		res.Faults["apreq-"+d.Kind]++
	}
	if tp.Scenario == "file" {
		res.Faults["file-"+tp.Mode] += tp.Count
	}
	if tp.PAC != "" && tp.PAC != "valid" {
		res.Faults["pac-"+tp.PAC]++
	}
	if tp.PAC != "" {
		fault += "+pac-" + tp.PAC
	}
	if tp.S2KAll {
		fault += "+s2kall"
	}
	res.Class = fmt.Sprintf("%s|%s%s|%d|%s|%s|%d|%v%v", tp.Scenario, tp.File, tp.Cred, tp.Etype, tp.Mode, fault, tp.From, tp.Preauth, tp.Subkey)
}

// ---------------------------------------------------------------- files
func runFile(tp *Tape, m *monitor) {
	var file []byte
	switch tp.File {
	case "keytab-user", "keytab-service":
		kdc := refkdc.New("SIM.TEST", tp.RunSeed, refkdc.Policy{})
		name := "alice"
		if tp.File == "keytab-service" {
			name = "HTTP/host.sim.test"
			kdc.AddService(name)
		} else {
			kdc.AddKeyUser(name, 3)
		}
		_, b, err := gk.UserKeytab(kdc, name)
		if err != nil {
			m.res.Verdict, m.res.Harness = "harness-error", err.Error()
			return
		}
		file = b
		for et, k := range kdc.DB[name].Keys {
			m.t.Add("long-term-key", fmt.Sprintf("%s etype %d", name, et), k.Key.Value)
		}
	case "ccache":
		file, _ = hexBytes(testdata.CCACHE_TEST)
		c := new(credentials.CCache)
		if err := c.Unmarshal(file); err != nil {
			m.res.Verdict, m.res.Harness = "harness-error", "sample ccache: "+err.Error()
			return
		}
		for i, cr := range c.Credentials {
			m.t.Add("session-key", fmt.Sprintf("ccache credential %d", i), cr.Key.KeyValue)
		}
	default:
		m.res.Verdict, m.res.Harness = "invalid", "file"
		return
	}
	rng := core.NewRng(tp.RunSeed).Derive("c20file")
	for k := 0; k < tp.Count; k++ {
		d := tp.From + k
		var b []byte
		if tp.Mode == "prefix" {
			if d > len(file) {
				break
			}
			b = file[:d]
		} else {
			b = append([]byte{}, file...)
			pos := (d * 7919) % len(b)
			b[pos] = []byte{0x00, 0xff, b[pos] + 1, 0x7f}[rng.Intn(4)]
		}
		m.res.Evals++
		m.res.Probes["file-torn"]++
		var err error
		panicked, frame, msg := engine.Guard(func() {
			if tp.File == "ccache" {
				c := new(credentials.CCache)
				err = c.Unmarshal(b)
				if err == nil {
					cr := c.GetClientCredentials()
					if j, e := cr.JSON(); e == nil {
						m.scan("credentials-json", "CCache.GetClientCredentials", []byte(j))
					}
				}
			} else {
				kt := keytab.New()
				err = kt.Unmarshal(b)
				if err == nil {
					if j, e := kt.JSON(); e == nil {
						m.scan("keytab-json", "Keytab.JSON", []byte(j))
					}
					// the library's own listing of a keytab: what fmt and log print for it
					m.scan("diagnostic-dump", "Keytab.String", []byte(kt.String()))
				}
			}
		})
		if panicked {
			m.res.Stats["panics"]++
			_ = frame
			_ = msg
		}
		m.scanErr(strings.SplitN(tp.File, "-", 2)[0]+".Unmarshal", err)
	}
}

func hexBytes(s string) ([]byte, error) {
	out := make([]byte, len(s)/2)
	_, err := fmt.Sscanf("", "")
	for i := 0; i+1 < len(s); i += 2 {
		var v byte
		fmt.Sscanf(s[i:i+2], "%02x", &v)
		out[i/2] = v
	}
	return out, err
}

// ---------------------------------------------------------------- client
type wireTap struct {
	inner simnet.World
	m     *monitor
}

func runClient(tp *Tape, m *monitor) {
	if tp.Etype == 0 {
		tp.Etype = 18
	}
	gk.Seed(tp.RunSeed)
	pol := refkdc.Policy{RequirePreauth: tp.Preauth, Hints: []string{"etype-info2", "pw-salt"}, HintsInASRep: true, CopyAddresses: true, S2KParamsForAll: tp.S2KAll}
	kdc := refkdc.New("SIM.TEST", tp.RunSeed, pol)
	kdc.AddService("HTTP/host.sim.test")
	if tp.Cred == "password" {
		p := kdc.AddPasswordUser("alice", password, "", 0)
		p.Precompute("SIM.TEST", []int{tp.Etype})
		m.t.Add("password", "alice's password", []byte(password))
		if k, ok := p.KeyFor("SIM.TEST", tp.Etype); ok {
			m.t.Add("long-term-key", "alice's key derived from the password", k.Key.Value)
		}
	} else {
		kdc.AddKeyUser("alice", 3)
		if tp.RunSeed%2 == 0 {
			// an account with one key only (the keytab then lacks every other etype a KDC may hint at)
			for et := range kdc.DB["alice"].Keys {
				if et != tp.Etype {
					delete(kdc.DB["alice"].Keys, et)
				}
			}
		}
		for et, k := range kdc.DB["alice"].Keys {
			m.t.Add("long-term-key", fmt.Sprintf("alice keytab etype %d", et), k.Key.Value)
		}
	}
	net := world.NewNet()
	armed := false
	gk.Wire(net, kdc, []string{"10.0.0.1:88"}, func(req []byte) []refkdc.Perturb {
		if armed {
			return tp.Perturb
		}
		return nil
	})
	errShot := false
	net.Mangle = func(proto, addr string, req, reply []byte) []byte {
		m.scan("wire", "bytes sent to the KDC", req)
		m.res.Probes["wire-bytes-scanned"]++
		if armed && tp.Net == "krberror" && !errShot {
			errShot = true
			return kdc.ErrorReply(int32(tp.NetArg), req, nil)
		}
		return reply
	}
	// the realm's change-password server (reference RFC 3244 server), and what a peer on the path makes of its answers
	kp := refkdc.NewKPasswd(kdc)
	kpMode := ""
	net.Resp["10.0.0.1:464"] = func(proto, addr string, req []byte) []byte {
		m.scan("wire", "bytes sent to the change-password server", req)
		fr, err := rk.DecKpasswdRequest(req)
		switch {
		case kpMode == "reflect-fabricated-aprep" && err == nil:
			fake := rk.EncAPRep(rk.EncryptedData{Etype: int32(tp.Etype), Cipher: core.NewRng(tp.RunSeed).Derive("fake-aprep").Bytes(60)})
			return rk.EncKpasswdReply(fake, fr.Priv)
		case kpMode == "reflect-genuine-aprep" && err == nil:
			g := kp.Handle(req)
			if len(g) > 6 {
				if l := int(g[4])<<8 | int(g[5]); l > 0 && 6+l <= len(g) {
					return rk.EncKpasswdReply(g[6:6+l], fr.Priv)
				}
			}
			return g
		}
		return kp.Handle(req)
	}
	simnet.Install(net)
	noaddr := false
	et := gk.EtypeNames[tp.Etype]
	cm := gk.ConfModel{DefaultRealm: "SIM.TEST", NoAddresses: &noaddr, TktEtypes: []string{et}, TGSEtypes: []string{et}, PreauthTypes: []int{tp.Etype},
		Realms: map[string][]string{"SIM.TEST": {"10.0.0.1:88"}}, KPasswd: map[string][]string{"SIM.TEST": {"10.0.0.1:464"}}, DomainRealm: map[string]string{".sim.test": "SIM.TEST"}}
	cfg, _, err := cm.Parse()
	if err != nil {
		m.res.Verdict, m.res.Harness = "harness-error", "krb5.conf: "+err.Error()
		return
	}
	var logBuf bytes.Buffer
	var cl *client.Client
	if tp.Cred == "password" {
		cl = client.NewWithPassword("alice", "SIM.TEST", password, cfg, client.Logger(log.New(&logBuf, "", 0)))
	} else {
		kt, _, err := gk.UserKeytab(kdc, "alice")
		if err != nil {
			m.res.Verdict, m.res.Harness = "harness-error", err.Error()
			return
		}
		cl = client.NewWithKeytab("alice", "SIM.TEST", kt, cfg, client.Logger(log.New(&logBuf, "", 0)))
	}
	// every key the KDC has put into a reply so far is a secret the client may have seen, also when
	// the reply was damaged afterwards and the exchange failed: learn them before anything is scanned
	learn := func() {
		for _, is := range kdc.Issues() {
			m.t.Add("session-key", "session key "+is.Serial, is.SessionKey.Value)
		}
	}
	surfaces := func(stage string) {
		learn()
		var b bytes.Buffer
		engine.Guard(func() { cl.Print(&b) })
		m.scan("diagnostic-dump", "Client.Print "+stage, b.Bytes())
		b.Reset()
		engine.Guard(func() { m.scanErr("Client.Diagnostics", cl.Diagnostics(&b)) })
		m.scan("diagnostic-dump", "Client.Diagnostics "+stage, b.Bytes())
		if j, e := cl.Credentials.JSON(); e == nil {
			m.scan("credentials-json", "Credentials.JSON "+stage, []byte(j))
		}
		if g, e := cl.Credentials.Marshal(); e == nil {
			m.scan("credentials-gob", "Credentials.Marshal "+stage, g)
		}
		if j, e := cfg.JSON(); e == nil {
			m.scan("config-json", "Config.JSON", []byte(j))
		}
		if cl.Credentials.HasKeytab() {
			if j, e := cl.Credentials.Keytab().JSON(); e == nil {
				m.scan("keytab-json", "Keytab.JSON", []byte(j))
			}
			m.scan("diagnostic-dump", "Keytab.String", []byte(fmt.Sprintf("%v", cl.Credentials.Keytab())))
		}
		m.scan("log", "client logger "+stage, logBuf.Bytes())
		m.res.Probes["log-lines-scanned"] += strings.Count(logBuf.String(), "\n")
		m.res.Evals++
	}
	done := simrt.Spawn(1, "user", simrt.Sched{Mode: "min"}, func() {
		// faults on the AS exchange
		armed = true
		switch tp.Net {
		case "refuse", "close", "silent":
			net.Beh["udp!10.0.0.1:88"] = world.Behaviour{Kind: tp.Net, Arg: tp.NetArg}
			net.Beh["tcp!10.0.0.1:88"] = world.Behaviour{Kind: tp.Net, Arg: tp.NetArg}
		}
		var e error
		engine.Guard(func() { e = cl.Login() })
		learn()
		m.scanErr("Client.Login", e)
		surfaces("after login attempt")
		// an honest login, then faults on the TGS exchange
		armed = false
		net.Beh = map[string]world.Behaviour{}
		engine.Guard(func() { e = cl.Login() })
		if e != nil {
			m.scanErr("Client.Login (honest)", e)
			return
		}
		armed, errShot = true, false
		switch tp.Net {
		case "refuse", "close", "silent":
			net.Beh["udp!10.0.0.1:88"] = world.Behaviour{Kind: tp.Net, Arg: tp.NetArg}
			net.Beh["tcp!10.0.0.1:88"] = world.Behaviour{Kind: tp.Net, Arg: tp.NetArg}
		}
		engine.Guard(func() { _, _, e = cl.GetServiceTicket("HTTP/host.sim.test") })
		learn()
		m.scanErr("Client.GetServiceTicket", e)
		surfaces("after ticket request")
		armed = false
		net.Beh = map[string]world.Behaviour{}
		engine.Guard(func() { _, _, e = cl.GetServiceTicket("HTTP/host.sim.test") })
		m.scanErr("Client.GetServiceTicket (honest)", e)
		surfaces("with cached ticket")
		cl.Destroy()
		surfaces("after destroy")
		if tp.Cred == "password" {
			// the same user through HTTP Basic: service.KRB5BasicAuthenticator takes the header value a
			// client sent - well-formed (full flow against the KDC, once honest and once under this run's
			// fault) and in forms that do not parse; the credentials as sent are a secret like the password
			creds := "alice@SIM.TEST:" + password
			std := base64.StdEncoding.EncodeToString([]byte(creds))
			forms := []struct{ name, hdr, secret string }{
				{"valid", std, std},
				{"valid-under-fault", std, std},
				{"padding-stripped", strings.TrimRight(base64.StdEncoding.EncodeToString([]byte(creds+"x")), "="), strings.TrimRight(base64.StdEncoding.EncodeToString([]byte(creds+"x")), "=")},
				{"trailing-characters", std + "!!", std},
				{"url-safe-alphabet", base64.URLEncoding.EncodeToString([]byte("\xfb\xff" + creds)), base64.URLEncoding.EncodeToString([]byte("\xfb\xff" + creds))},
				{"no-colon", base64.StdEncoding.EncodeToString([]byte("alice@SIM.TEST " + password)), base64.StdEncoding.EncodeToString([]byte("alice@SIM.TEST " + password))},
				{"no-realm", base64.StdEncoding.EncodeToString([]byte("alice:" + password)), base64.StdEncoding.EncodeToString([]byte("alice:" + password))},
			}
			for _, f := range forms {
				m.t.Add("password", "basic credentials as sent ("+f.name+")", []byte(f.secret))
			}
			var svcLog bytes.Buffer
			st := service.NewSettings(keytab.New(), service.SName("HTTP/host.sim.test"), service.Logger(log.New(&svcLog, "", 0)))
			for _, f := range forms {
				armed, errShot = f.name == "valid-under-fault", false
				net.Beh = map[string]world.Behaviour{}
				if armed {
					switch tp.Net {
					case "refuse", "close", "silent":
						net.Beh["udp!10.0.0.1:88"] = world.Behaviour{Kind: tp.Net, Arg: tp.NetArg}
						net.Beh["tcp!10.0.0.1:88"] = world.Behaviour{Kind: tp.Net, Arg: tp.NetArg}
					}
				}
				var ae error
				engine.Guard(func() {
					a := service.NewKRB5BasicAuthenticator(f.hdr, cfg, st, client.NewSettings(client.Logger(log.New(&logBuf, "", 0))))
					_, _, ae = a.Authenticate()
				})
				learn()
				m.scanErr("KRB5BasicAuthenticator.Authenticate ("+f.name+")", ae)
				m.scan("log", "service logger, basic authentication", svcLog.Bytes())
				m.scan("log", "client logger, basic authentication", logBuf.Bytes())
				m.res.Probes["basic-authentication-header-"+f.name]++
				m.res.Evals++
			}
			armed = false
			net.Beh = map[string]world.Behaviour{}
			// the same user changes the password (RFC 3244) against the realm's change-password server:
			// honest, refusing by policy, unreachable - and a peer on the path that hands the client its
			// own KRB-PRIV back (which decrypts under the very subkey the client chose), behind an AP-REP it
			// made up or behind the genuine one.  The new password is a secret like the old one.
			const newPassword = "Nw4-hG8sVb2Kq6Tz0Xy3"
			m.t.Add("password", "the new password", []byte(newPassword))
			for _, mode := range []string{"reflect-fabricated-aprep", "reflect-genuine-aprep", "refused-by-policy", "unreachable", "honest"} {
				kpMode = mode
				kp.Result, kp.ResultText = 0, ""
				net.Beh = map[string]world.Behaviour{}
				switch mode {
				case "refused-by-policy", "reflect-genuine-aprep":
					// (the genuine AP-REP of the reflecting peer comes from a server that refuses the change,
					// so that the account keeps its password for the modes that follow)
					kp.Result, kp.ResultText = 4, "password does not meet the policy"
				case "unreachable":
					net.Beh["udp!10.0.0.1:464"] = world.Behaviour{Kind: "refuse"}
					net.Beh["tcp!10.0.0.1:464"] = world.Behaviour{Kind: "close", Arg: 3}
				}
				cl2 := client.NewWithPassword("alice", "SIM.TEST", password, cfg, client.Logger(log.New(&logBuf, "", 0)))
				var ce error
				var ok bool
				engine.Guard(func() { ok, ce = cl2.ChangePasswd(newPassword) })
				learn()
				m.scanErr("Client.ChangePasswd ("+mode+")", ce)
				m.scan("log", "client logger, change password", logBuf.Bytes())
				m.res.Probes["change-password-"+mode]++
				if ok {
					m.res.Probes["change-password-applied"]++
				}
				m.res.Evals++
				cl2.Destroy()
			}
			kpMode = ""
			net.Beh = map[string]world.Behaviour{}
		}
	})
	simrt.WaitTimeout(24*time.Hour, done)
	if done.Panic != nil {
		m.res.Verdict, m.res.Harness = "harness-error", fmt.Sprintf("user task panicked: %v\n%s", done.Panic, done.Stack)
	}
}

// ---------------------------------------------------------------- service / http
func runService(tp *Tape, m *monitor) {
	if tp.Etype == 0 {
		tp.Etype = 18
	}
	ktm := world.BuildKeytab(tp.RunSeed, []string{"HTTP/host.sim.test"}, []string{"SIM.TEST"}, []int{1, 2}, []int{tp.Etype})
	for _, e := range ktm.Entries {
		m.t.Add("long-term-key", fmt.Sprintf("service key kvno %d", e.Kvno), e.Key.Value)
	}
	kt := keytab.New()
	if err := kt.Unmarshal(ktm.Bytes()); err != nil {
		m.res.Verdict, m.res.Harness = "harness-error", "keytab: "+err.Error()
		return
	}
	var logBuf bytes.Buffer
	opts := []func(*service.Settings){service.Logger(log.New(&logBuf, "", 0)), service.DecodePAC(true)}
	settings := service.NewSettings(kt, opts...)
	simrt.SleepExact(int64(time.Hour) + 333)
	service.GetReplayCache(5 * time.Minute)
	minter := &world.Minter{Seed: tp.RunSeed, Kt: ktm}
	if tp.PAC != "" {
		pacSample, _ := hex.DecodeString(testdata.MarshaledPAC_AD_WIN2K_PAC)
		minter.PACFor = world.StdPACFor(pacSample, tp.RunSeed)
	}
	rng := core.NewRng(tp.RunSeed).Derive("c20svc")
	replay := false
	var defects []world.Defect
	for _, d := range tp.Defects {
		if d.Kind == "replay" {
			replay = true
		} else {
			defects = append(defects, d)
		}
	}
	s := time.Now().UTC().Truncate(time.Second).Add(2 * time.Second)
	spec := world.ReqSpec{Client: "alice", Svc: "HTTP/host.sim.test", Realm: "SIM.TEST", Kvno: 2, Etype: tp.Etype, KvnoField: true, StartTime: true, Cksum: true, Subkey: tp.Subkey, Defects: defects, PAC: tp.PAC}
	tr, err := minter.Mint(spec, s, 5*time.Minute, rng)
	if err != nil {
		m.res.Verdict, m.res.Harness = "invalid", "mint: "+err.Error()
		return
	}
	m.t.Add("session-key", "session key sealed in the ticket", tr.SessKey.Value)
	if tp.Subkey {
		m.t.Add("subkey", "subkey sealed in the authenticator", world.KeyFor(tp.RunSeed, fmt.Sprintf("subkey/%d", minter.Serial), tp.Etype).Value)
	}
	simrt.SleepExact(int64(s.Add(time.Duration(tr.TimeDelta)).Sub(time.Now())))
	present := func(round string) {
		m.res.Evals++
		if tp.Scenario == "http" {
			ss := &memStore{m: map[string][]byte{}}
			inner := http.HandlerFunc(func(w http.ResponseWriter, r *http.Request) { w.WriteHeader(200) })
			h := spnego.SPNEGOKRB5Authenticate(inner, kt, append(opts, service.SessionManager(ss))...)
			tok := rk.NegTokenInit([][]int{rk.OIDKRB5}, rk.KRB5Token(rk.TokAPReq, tr.Bytes))
			req := httptest.NewRequest("GET", "http://host.sim.test/", nil)
			req.RemoteAddr = "10.1.2.3:4000"
			req.Header.Set("Authorization", "Negotiate "+base64.StdEncoding.EncodeToString(tok))
			rec := httptest.NewRecorder()
			engine.Guard(func() { h.ServeHTTP(rec, req) })
			var hb bytes.Buffer
			rec.Header().Write(&hb)
			m.scan("http-response", "response headers and body "+round, append(hb.Bytes(), rec.Body.Bytes()...))
			for sid, v := range ss.m {
				m.scan("session-store", "value stored for "+sid, v)
			}
		} else {
			var ap messages.APReq
			if e := ap.Unmarshal(tr.Bytes); e != nil {
				m.scanErr("APReq.Unmarshal", e)
				return
			}
			var ok bool
			var creds *credentials.Credentials
			var e error
			engine.Guard(func() { ok, creds, e = service.VerifyAPREQ(&ap, settings) })
			m.scanErr("service.VerifyAPREQ "+round, e)
			// a service that logs its settings: fmt prints the keytab in them through Keytab.String
			// (printed through a struct of the keytab field alone: the other fields of Settings are
			// pointers whose addresses differ from process to process)
			m.scan("diagnostic-dump", "struct holding the service keytab printed with %+v (Keytab.String)", []byte(fmt.Sprintf("%+v", struct{ Keytab *keytab.Keytab }{settings.Keytab})))
			if creds != nil {
				if j, e := creds.JSON(); e == nil {
					m.scan("credentials-json", "identity returned by VerifyAPREQ", []byte(j))
				}
				if g, e := creds.Marshal(); e == nil {
					m.scan("credentials-gob", "identity returned by VerifyAPREQ", g)
				}
			}
			_ = ok
			// re-encoding of what the library has just decrypted
			engine.Guard(func() {
				if b, e := ap.Marshal(); e == nil {
					m.scan("wire-encoding", "APReq.Marshal after verification", b)
					m.res.Probes["decrypted-object-reencoded"]++
				}
				if b, e := ap.Ticket.Marshal(); e == nil {
					m.scan("wire-encoding", "Ticket.Marshal after decryption", b)
				}
				if raw, e := messages.MarshalTicketSequence([]messages.Ticket{ap.Ticket}); e == nil {
					m.scan("wire-encoding", "MarshalTicketSequence of the decrypted ticket", raw.Bytes)
				}
				body := messages.KDCReqBody{KDCOptions: types.NewKrbFlags(), Realm: "SIM.TEST", SName: ap.Ticket.SName, Till: time.Now().UTC(), Nonce: 7, EType: []int32{18},
					AdditionalTickets: []messages.Ticket{ap.Ticket}}
				if b, e := body.Marshal(); e == nil {
					m.scan("wire-encoding", "KDCReqBody.Marshal with the decrypted ticket as additional ticket", b)
				}
				treq := messages.TGSReq{KDCReqFields: messages.KDCReqFields{PVNO: 5, MsgType: 12, ReqBody: body}}
				if b, e := treq.Marshal(); e == nil {
					m.scan("wire-encoding", "TGSReq.Marshal with the decrypted ticket as additional ticket", b)
				}
				if b, e := ap.Authenticator.Marshal(); e == nil {
					// the decrypted authenticator re-encoded in clear is a carrier of its own subkey by
					// definition (that is its content); it is scanned for the other secrets only
					_ = b
				}
				if b, e := ap.EncryptedAuthenticator.Marshal(); e == nil {
					m.scan("wire-encoding", "EncryptedData.Marshal of the authenticator", b)
				}
				if j, e := json.Marshal(ap.Ticket.EncPart); e == nil {
					m.scan("json", "json of Ticket.EncPart", j)
				}
				var key types.EncryptionKey = ap.Ticket.DecryptedEncPart.Key
				if j, e := json.Marshal(key); e == nil {
					m.scan("json", "json of the decrypted session key struct", j)
				}
			})
		}
		m.scan("log", "service logger "+round, logBuf.Bytes())
		m.res.Probes["log-lines-scanned"] += strings.Count(logBuf.String(), "\n")
	}
	present("first presentation")
	if replay {
		present("replayed presentation")
	}
}

type memStore struct {
	m map[string][]byte
	n int
}

func (s *memStore) New(w http.ResponseWriter, r *http.Request, k string, v []byte) error {
	s.n++
	sid := fmt.Sprintf("sid%d", s.n)
	s.m[sid] = append([]byte{}, v...)
	http.SetCookie(w, &http.Cookie{Name: "sim_session", Value: sid})
	return nil
}

func (s *memStore) Get(r *http.Request, k string) ([]byte, error) {
	c, err := r.Cookie("sim_session")
	if err != nil {
		return nil, nil
	}
	return s.m[c.Value], nil
}
