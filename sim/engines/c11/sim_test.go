package c11

import (
	"sync/atomic"
	"encoding/json"
	"fmt"
	"io"
	"sort"
	"strings"
	"testing"
	"time"

	"github.com/jcmturner/gokrb5/v8/client"

	"verifsim/core"
	"verifsim/engine"
	"verifsim/refkdc"
	"verifsim/shim/simnet"
	"verifsim/shim/simsync"
	"verifsim/simrt"
	"verifsim/world"
	"verifsim/world/gk"
)

type eng struct{}

func (eng) Meta() core.Meta                             { return Meta() }
func (eng) Gen(c, tier string) (json.RawMessage, error) { return Gen(c, tier) }
func (eng) Run(tape json.RawMessage, res *core.Result)  { run(tape, res) }
func TestSim(t *testing.T)                              { engine.Main(t, eng{}) }

type opRec struct {
	Task    int      `json:"task"`
	I       int      `json:"i"`
	Op      string   `json:"op"`
	SPN     string   `json:"spn,omitempty"`
	Invoke  int64    `json:"invoke_ns"`
	Return  int64    `json:"return_ns"`
	OK      bool     `json:"ok"`
	Err     string   `json:"err,omitempty"`
	Panic   string   `json:"panic,omitempty"`
	Cipher  []byte   `json:"-"`
	Key     []byte   `json:"-"`
	KeyType int32    `json:"-"`
	KDCs    []string `json:"kdcs,omitempty"`
	Count   int      `json:"count,omitempty"`
}

func run(tapeJSON json.RawMessage, res *core.Result) {
	var tp Tape
	if err := json.Unmarshal(tapeJSON, &tp); err != nil {
		res.Verdict, res.Harness = "invalid", err.Error()
		return
	}
	if tp.NKDC < 1 || tp.NKDC > 3 || len(tp.Tasks) < 1 || len(tp.Tasks) > 16 || tp.LifeS < 10 || tp.LifeS > 86400 {
		res.Verdict, res.Harness = "invalid", "shape"
		return
	}
	ids := map[int]bool{}
	nops := 0
	for _, t := range tp.Tasks {
		if t.ID < 1 || t.ID > 40 || ids[t.ID] {
			res.Verdict, res.Harness = "invalid", "task ids"
			return
		}
		ids[t.ID] = true
		nops += len(t.Ops)
	}
	if nops > 200 {
		res.Verdict, res.Harness = "invalid", "too many ops"
		return
	}
	gk.Seed(tp.RunSeed)
	net := world.NewNet()
	net.MultiTask = true
	sim := refkdc.New("SIM.TEST", tp.RunSeed, refkdc.Policy{MaxLifeS: tp.LifeS, MaxRenewS: tp.RenewS, CopyAddresses: true, RequirePreauth: tp.Preauth, ExpiryGraceS: tp.GraceS})
	other := refkdc.New("OTHER.TEST", tp.RunSeed+1, refkdc.Policy{MaxLifeS: tp.LifeS, CopyAddresses: true, ExpiryGraceS: tp.GraceS})
	refkdc.Link(sim, other)
	for _, s := range spns[:5] {
		sim.AddService(s)
	}
	for i := 1; i <= 16; i++ {
		sim.AddService(uniqueSPN(i)) // one service per task: a request for it is never served from the cache the first time
	}
	other.AddService(spns[5])
	sim.Referral[spns[5]] = "OTHER.TEST"
	sim.AddKeyUser("alice", 2)
	var addrs []string
	for i := 0; i < tp.NKDC; i++ {
		addrs = append(addrs, fmt.Sprintf("10.0.0.%d:88", i+1))
	}
	gk.Wire(net, sim, addrs, nil)
	gk.Wire(net, other, []string{"10.0.1.1:88"}, nil)
	simnet.Install(net)
	yes := true
	renew := ""
	if tp.RenewS > 0 {
		renew = "1h"
	}
	cm := gk.ConfModel{DefaultRealm: "SIM.TEST", NoAddresses: &yes, RenewLifetime: renew, TktEtypes: []string{gk.EtypeNames[18], gk.EtypeNames[17]}, TGSEtypes: []string{gk.EtypeNames[18]},
		SplitRealms: tp.Split, Realms: map[string][]string{"SIM.TEST": addrs, "OTHER.TEST": {"10.0.1.1:88"}}, DomainRealm: map[string]string{".sim.test": "SIM.TEST", "sim.test": "SIM.TEST"}}
	cfg, _, err := cm.Parse()
	if err != nil {
		res.Verdict, res.Harness = "harness-error", "krb5.conf: "+err.Error()
		return
	}
	kt, _, err := gk.UserKeytab(sim, "alice")
	if err != nil {
		res.Verdict, res.Harness = "harness-error", "keytab: "+err.Error()
		return
	}
	cl := client.NewWithKeytab("alice", "SIM.TEST", kt, cfg)
	// deadlocks and lost wake-ups show up as a task that cannot get a lock, or as no progress
	engine.AbortHook = func(kind, detail string, r *core.Result) {
		site := detail
		if i := strings.Index(site, " owner="); i > 0 {
			site = site[:i]
		}
		engine.Violate(r, "deadlock-or-no-progress|"+kind+"|"+site, map[string]string{"kind": kind, "detail": detail})
	}
	simsync.SpinLimit = 50000
	before, _ := json.Marshal(cfg)
	if tp.PreLogin {
		p, frame, msg := engine.Guard(func() { err = cl.Login() })
		if p {
			err = fmt.Errorf("panic %s %s", frame, msg)
		}
		if err != nil {
			res.Verdict, res.Harness = "harness-error", "initial login over a healthy network failed: "+err.Error()
			return
		}
	}
	recs := make([][]opRec, len(tp.Tasks))
	var ts []*simrt.Task
	var destroyedAt [64]int64
	for ti, tt := range tp.Tasks {
		ti, tt := ti, tt
		ts = append(ts, simrt.Spawn(tt.ID, fmt.Sprintf("user%d", tt.ID), tt.Sched, func() {
			for oi, op := range tt.Ops {
				if op.ThinkNs > 0 {
					simrt.SleepNs(op.ThinkNs, "think")
				}
				r := opRec{Task: tt.ID, I: oi, Op: op.Op, SPN: op.SPN, Invoke: simrt.NowNs()}
				simrt.Sitef("invoke %s %s", op.Op, op.SPN)
				var e error
				panicked, frame, msg := engine.Guard(func() {
					switch op.Op {
					case "tgs":
						tkt, key, err := cl.GetServiceTicket(op.SPN)
						e = err
						r.Cipher, r.Key, r.KeyType = tkt.EncPart.Cipher, key.KeyValue, key.KeyType
					case "cached":
						tkt, key, ok := cl.GetCachedTicket(op.SPN)
						if !ok {
							e = fmt.Errorf("not cached")
						}
						r.Cipher, r.Key, r.KeyType = tkt.EncPart.Cipher, key.KeyValue, key.KeyType
					case "login":
						e = cl.Login()
					case "affirm":
						e = cl.AffirmLogin()
					case "getkdcs", "kpasswd":
						var c int
						var m map[int]string
						if op.Op == "getkdcs" {
							c, m, e = cfg.GetKDCs("SIM.TEST", oi%2 == 0)
						} else {
							c, m, e = cfg.GetKpasswdServers("SIM.TEST", oi%2 == 0)
							if e != nil {
								e = nil // no kpasswd servers are configured; only the side effects matter
								return
							}
						}
						r.Count = c
						for i := 1; i <= len(m); i++ {
							r.KDCs = append(r.KDCs, m[i])
						}
						if len(r.KDCs) != len(m) {
							r.KDCs = append(r.KDCs, "<keys of the result are not 1..n>")
						}
					case "resolve":
						if rr := cfg.ResolveRealm("host.sim.test"); rr != "SIM.TEST" {
							e = fmt.Errorf("ResolveRealm = %q", rr)
						}
					case "diag":
						cl.Diagnostics(io.Discard)
					case "destroy":
						if destroyedAt[ti] == 0 {
							destroyedAt[ti] = r.Invoke + 1 // operations that overlap a Destroy may already fail
						}
						cl.Destroy()
					}
				})
				if panicked {
					r.Panic = frame + ": " + msg
					e = fmt.Errorf("panic: %s", r.Panic)
				}
				r.Return = simrt.NowNs()
				r.OK = e == nil
				if e != nil {
					r.Err = e.Error()
					if len(r.Err) > 240 {
						r.Err = r.Err[:240]
					}
				}
				simrt.Sitef("return %s %s ok=%v", op.Op, op.SPN, r.OK)
				recs[ti] = append(recs[ti], r)
			}
		}))
	}
	var downAt, upAt atomic.Int64
	downAt.Store(-1)
	upAt.Store(-1)
	if o := tp.Outage; o != nil && o.AtNs >= 0 && o.ForNs > 0 && o.ForNs < int64(48*time.Hour) {
		ts = append(ts, simrt.Spawn(40, "network", simrt.Sched{Mode: "min"}, func() {
			simrt.SleepNs(o.AtNs, "until the outage")
			b := world.Behaviour{Kind: "refuse"}
			if o.Kind == "close" {
				b = world.Behaviour{Kind: "close", Arg: 0}
			}
			net.Down.Store(&b)
			downAt.Store(simrt.NowNs())
			simrt.Logf("network outage begins (%s)", o.Kind)
			simrt.SleepNs(o.ForNs, "outage")
			net.Down.Store(nil)
			upAt.Store(simrt.NowNs())
			simrt.Logf("network outage ends")
		}))
	}
	if late := simrt.WaitTimeout(60*24*time.Hour, ts...); len(late) > 0 {
		var names []string
		for _, t := range late {
			names = append(names, t.Name)
		}
		engine.Violate(res, "deadlock-or-no-progress|tasks-never-finished", map[string]interface{}{"tasks": names})
		return
	}
	for _, t := range ts {
		if t.Panic != nil {
			res.Verdict, res.Harness = "harness-error", fmt.Sprintf("task %d panicked: %v\n%s", t.ID, t.Panic, t.Stack)
			return
		}
	}
	// ---- oracles over the history
	after, _ := json.Marshal(cfg)
	if string(before) != string(after) {
		field := "other"
		var b, a map[string]interface{}
		json.Unmarshal(before, &b)
		json.Unmarshal(after, &a)
		for k := range b {
			bb, _ := json.Marshal(b[k])
			aa, _ := json.Marshal(a[k])
			if string(bb) != string(aa) {
				field = k
			}
		}
		engine.Violate(res, "config-mutated|"+field, map[string]string{"before": string(before), "after": string(after)})
	}
	destroyed := int64(-1)
	for _, d := range destroyedAt {
		if d > 0 && (destroyed < 0 || d < destroyed) {
			destroyed = d
		}
	}
	var issues []refkdc.Issue
	issues = append(issues, sim.Issues()...)
	issues = append(issues, other.Issues()...)
	var all []opRec
	for _, rs := range recs {
		all = append(all, rs...)
	}
	sort.SliceStable(all, func(i, j int) bool {
		if all[i].Invoke != all[j].Invoke {
			return all[i].Invoke < all[j].Invoke
		}
		return all[i].Task < all[j].Task
	})
	res.Evals = 0
	spnTasks := map[string]map[int]bool{}
	for _, r := range all {
		res.Evals++
		afterDestroy := destroyed >= 0 && r.Return >= destroyed
		if r.Panic != "" {
			engine.Violate(res, "panic|"+strings.SplitN(r.Panic, ":", 2)[0], r)
			continue
		}
		// an operation that overlaps the outage may fail (what it returns is judged as always); one
		// invoked after the outage ended is owed everything again
		if d := downAt.Load(); d >= 0 && r.Return >= d && (upAt.Load() < 0 || r.Invoke <= upAt.Load()) {
			res.Probes["operation-during-outage"]++
			if !r.OK {
				res.Stats["failed_during_outage"]++
				afterDestroy = true // owed nothing
			}
		} else if u := upAt.Load(); u >= 0 && r.Invoke > u {
			res.Probes["operation-after-outage"]++
		}
		switch r.Op {
		case "tgs", "cached":
			if !r.OK {
				if r.Op == "tgs" && !afterDestroy {
					engine.Violate(res, "healthy-kdc.failed|tgs", r)
				}
				continue
			}
			if spnTasks[r.SPN] == nil {
				spnTasks[r.SPN] = map[int]bool{}
			}
			spnTasks[r.SPN][r.Task] = true
			is := refkdc.FindIssue(issues, r.Cipher)
			switch {
			case is == nil:
				engine.Violate(res, "pairing|ticket-not-in-issue-log", r)
			case is.SName != r.SPN:
				engine.Violate(res, "pairing|ticket-for-another-spn", map[string]interface{}{"op": r, "issued_for": is.SName})
			case string(is.SessionKey.Value) != string(r.Key) || is.SessionKey.Etype != r.KeyType:
				engine.Violate(res, "pairing|key-not-issued-with-ticket", map[string]interface{}{"op": r, "serial": is.Serial})
			}
		case "login", "affirm":
			if !r.OK && !afterDestroy {
				engine.Violate(res, "healthy-kdc.failed|"+r.Op, r)
			}
		case "getkdcs":
			got := append([]string{}, r.KDCs...)
			want := append([]string{}, addrs...)
			sort.Strings(got)
			sort.Strings(want)
			if r.Count != len(addrs) || strings.Join(got, ",") != strings.Join(want, ",") {
				engine.Violate(res, "non-permutation|GetKDCs", map[string]interface{}{"op": r, "configured": addrs})
			}
		case "resolve":
			if !r.OK {
				engine.Violate(res, "resolve-realm-wrong", r)
			}
		}
	}
	// probes
	for _, m := range spnTasks {
		if len(m) > 1 {
			res.Probes["same-spn-by-several-tasks"]++
		}
	}
	for _, is := range issues {
		if is.Task >= 100 { // library goroutines
			res.Probes["renewal-during-run"]++
		}
	}
	for i := 0; i < len(all); i++ {
		for j := i + 1; j < len(all) && all[j].Invoke < all[i].Return; j++ {
			a, b := all[i], all[j]
			if a.Task == b.Task {
				continue
			}
			if (a.Op == "getkdcs" || a.Op == "tgs" || a.Op == "login") && (b.Op == "getkdcs" || b.Op == "tgs" || b.Op == "login") {
				res.Probes["concurrent-getkdcs"]++
			}
			if (a.Op == "login") != (b.Op == "login") && (a.Op == "tgs" || b.Op == "tgs") {
				res.Probes["login-while-others-request"]++
			}
			if (a.Op == "destroy") != (b.Op == "destroy") && (a.Op == "tgs" || b.Op == "tgs") {
				res.Probes["destroy-while-others-request"]++
			}
		}
	}
	if res.Evals == 0 {
		res.Evals = 1
	}
	for _, t := range tp.Tasks {
		if t.Sched.Mode != "min" && t.Sched.Mode != "" {
			res.Faults["seeded-delays-at-lock-boundaries("+t.Sched.Mode+")"]++
		}
		for _, o := range t.Ops {
			switch {
			case o.Op == "destroy":
				res.Faults["destroy-while-in-use"]++
			case o.ThinkNs > tp.LifeS*1_000_000_000:
				res.Faults["clock-advanced-beyond-ticket-life"]++
			}
		}
	}
	res.Class = "{I}"
	res.Nontrivial = len(tp.Tasks) > 1
	res.Stats["ops"] = int64(len(all))
	res.Stats["issues"] = int64(len(issues))
}
