// Package c11 is the engine for property C11: a client and its configuration can be shared by
// goroutines safely.  Real: one logged-in client.Client and one config.Config shared by 2-16
// tasks plus the library's renewal goroutines, built with the race detector.  Simulated: the
// reference KDC behind 1-3 configured addresses, short ticket lives, latency, the seeded
// scheduler that decides every interleaving at lock, network and workload boundaries.
package c11

import (
	"encoding/json"
	"fmt"

	"verifsim/core"
	"verifsim/engine"
	"verifsim/simrt"
)

type Op struct {
	Op      string `json:"op"` // tgs | cached | login | affirm | getkdcs | kpasswd | resolve | diag | destroy
	SPN     string `json:"spn,omitempty"`
	ThinkNs int64  `json:"think_ns,omitempty"`
}

type TaskT struct {
	ID    int         `json:"id"`
	Sched simrt.Sched `json:"sched"`
	Ops   []Op        `json:"ops"`
}

type Tape struct {
	Engine   string  `json:"engine"`
	RunSeed  uint64  `json:"run_seed"`
	NKDC     int     `json:"nkdc"`
	Split    string  `json:"split_realms,omitempty"` // the realm's KDCs are configured in two blocks of one name: block | section
	LifeS    int64   `json:"life_s"`            // KDC maximum ticket life (short, so that renewals happen in the run)
	RenewS   int64   `json:"renew_s"`           // KDC maximum renewable life (0 = tickets not renewable)
	Foreign  bool    `json:"foreign"`           // a second realm reached by referral
	Preauth  bool    `json:"preauth"`           // the KDC requires pre-authentication
	GraceS   int64   `json:"grace_s,omitempty"` // the KDC's allowance for expired tickets in a TGS-REQ (RFC 4120 3.2.3)
	PreLogin bool    `json:"prelogin"`
	Tasks    []TaskT `json:"tasks"`
	// Outage: from AtNs on, for ForNs, no server can be reached by connections dialled in that stretch
	// (refused, or the request is processed and the reply lost); both kinds fail fast
	Outage *Outage `json:"outage,omitempty"`
}

type Outage struct {
	AtNs  int64  `json:"at_ns"`
	ForNs int64  `json:"for_ns"`
	Kind  string `json:"kind"` // refuse | close
}

// uniqueSPN is the service only task i asks for.
func uniqueSPN(i int) string { return fmt.Sprintf("HTTP/u%d.sim.test", i) }

var spns = []string{"HTTP/host.sim.test", "HTTP/web.sim.test", "cifs/files.sim.test", "ldap/dir.sim.test", "HTTP/api.sim.test", "HTTP/far.other.test"}

func Meta() core.Meta {
	return core.Meta{
		Engine: "c11", Property: "C11", Level: "exploration",
		Rule:        "case = one run under the race detector: 2-16 tasks share one client and one configuration and issue 1-8 operations each (service tickets for a pool of 1-6 SPNs incl. a foreign-realm one, login, affirm, cached look-ups, KDC / kpasswd resolution, realm resolution, diagnostics, occasionally destroy) while the library's renewal goroutines fire (ticket lives of 30-600 simulated seconds); the seeded fake-time scheduler picks every interleaving at lock, network and workload boundaries; distinct = distinct interleaving hash (ordered sequence of (task, site) events); non-trivial = at least two tasks interleaved inside operations (context switches > tasks)",
		SeededQuick: 2000, SeededThorough: 60000,
		Race:           true,
		WorkloadProbes: []string{"same-spn-by-several-tasks", "renewal-during-run", "concurrent-getkdcs", "login-while-others-request", "destroy-while-others-request", "operation-during-outage", "operation-after-outage"},
		Components: map[string]string{
			"client.Client (sessions, cache, settings, credentials), config.Config (GetKDCs, GetKpasswdServers, ResolveRealm), renewal goroutines, exchanges, network code": "real, built with -race",
			"sync in client/session.go, client/cache.go": "shim (TryLock loop; happens-before edges are only the program's own)",
			"net in client/network.go":                   "shim (healthy simulated network)",
			"scheduler":                                  "sleep-based fake-time priority scheduling: no scheduler-induced happens-before edges",
			"KDC, issue log":                             "stub: refkdc (per-task logs and key streams, no state shared between tasks)",
		},
		Assumptions: []string{
			"a race report counts only when one of its two stacks has a gokrb5 frame and it reproduces from the tape twice; reports inside the harness are harness errors",
			"the race detector finds conflicting accesses that are unordered by happens-before, also when the schedule did not make them adjacent; it keeps a bounded history",
			"operations after a Destroy by any task may fail (the client has no credentials any more)",
		},
		ChildTimeoutS: 240,
	}
}

func Gen(caseID, tier string) (json.RawMessage, error) {
	kind, n, err := engine.ParseCase(caseID)
	if err != nil {
		return nil, err
	}
	if kind != "seed" {
		return nil, fmt.Errorf("c11 has no sweep")
	}
	r := core.NewRng(n).Derive("c11")
	tp := Tape{Engine: "c11", RunSeed: n, NKDC: r.Range(1, 3), LifeS: int64(r.PickInt(30, 60, 120, 600)), RenewS: int64(r.PickInt(0, 0, 600, 3600)),
		Foreign: r.Chance(1, 3), PreLogin: !r.Chance(1, 4), Preauth: r.Chance(1, 2), GraceS: int64(r.PickInt(0, 300))}
	nt := r.PickInt(2, 2, 3, 4, 6, 8, 12, 16)
	pool := r.Range(1, 5)
	modes := []string{"min", "fast", "fast", "mixed", "mixed", "slow"}
	shape := r.Intn(7)
	if shape == 6 {
		// destroy during renewals: every task fetches tickets at the start, comes back when they have
		// just expired (the KDC still renews them) and asks again - renewals of cached tickets - while
		// one task destroys the client within the same few milliseconds
		tp.PreLogin, tp.GraceS = true, 300
		tp.LifeS = int64(r.PickInt(30, 60))
		if tp.RenewS == 0 {
			tp.RenewS = 3600
		}
		if nt < 3 {
			nt = r.PickInt(3, 4, 6)
		}
	}
	if shape == 5 {
		// login storm: nobody has logged in yet, every task starts with a request at the same moment
		// (each finds no session and logs in), and after every ticket life they all come back together
		tp.PreLogin = false
		if nt < 3 {
			nt = r.PickInt(3, 4, 6)
		}
		tp.LifeS = int64(r.PickInt(10, 15, 30))
	}
	if shape == 4 {
		// requests spread over the whole life of a renewable TGT: the library's renewal (at 5/6 of
		// the life) and its session update happen while other tasks are asking for tickets
		if tp.RenewS == 0 {
			tp.RenewS = 3600
		}
		tp.PreLogin = true
		if nt < 4 {
			nt = r.PickInt(4, 6, 8)
		}
		pool = 5
	}
	back6 := tp.LifeS*1_000_000_000 + int64(r.Range(1, 20))*100_000_000 // shape 6: 0.1-2 s after the end of the first tickets
	for i := 1; i <= nt; i++ {
		t := TaskT{ID: i, Sched: simrt.Sched{Seed: r.U64(), Mode: modes[r.Intn(len(modes))]}}
		if (shape == 4 || shape == 6) && r.Chance(1, 2) {
			t.Sched.Mode = "stall"
		}
		if shape == 6 {
			back := back6 + int64(r.Range(0, 3000))*1000 // all within 3 ms of each other
			sp := spns[r.Intn(3)]
			t.Ops = []Op{{Op: "tgs", SPN: sp, ThinkNs: int64(r.Range(0, 3000))}, {Op: "tgs", SPN: sp, ThinkNs: back + int64(r.Range(0, 3000))}}
			if i == nt {
				// the destroyer: comes back with the others, a few milliseconds later
				t.Ops = []Op{{Op: "tgs", SPN: sp, ThinkNs: int64(r.Range(0, 3000))}, {Op: "destroy", ThinkNs: back + int64(r.Range(0, 6000))*1000}}
			} else if r.Chance(1, 2) {
				t.Ops = append(t.Ops, Op{Op: "tgs", SPN: spns[r.Intn(3)], ThinkNs: int64(r.Range(0, 5000)) * 1000})
			}
			tp.Tasks = append(tp.Tasks, t)
			continue
		}
		nops := r.Range(1, 8)
		if shape == 4 {
			nops = r.Range(5, 8)
		}
		for k := 0; k < nops; k++ {
			o := Op{}
			switch x := r.Intn(20); {
			case x < 9:
				o.Op, o.SPN = "tgs", spns[r.Intn(pool)]
				if shape == 0 {
					o.SPN = spns[0] // everybody wants the same ticket
				}
				if tp.Foreign && r.Chance(1, 5) {
					o.SPN = spns[5]
				}
			case x < 11:
				o.Op, o.SPN = "cached", spns[r.Intn(pool)]
			case x < 13:
				o.Op = "getkdcs"
			case x < 14:
				o.Op = "kpasswd"
			case x < 15:
				o.Op = "resolve"
			case x < 16:
				o.Op = "diag"
			case x < 18:
				o.Op = r.Pick("login", "affirm", "affirm")
			case x < 19 && shape >= 2 && i == nt && k > 0:
				o.Op = "destroy"
			default:
				o.Op, o.SPN = "tgs", spns[r.Intn(pool)]
			}
			switch r.Intn(6) {
			case 0, 1, 2:
				o.ThinkNs = int64(r.Range(0, 3000))
			case 3:
				o.ThinkNs = int64(r.Range(1, 3000)) * 1_000_000
			case 4:
				o.ThinkNs = int64(r.Range(1, int(tp.LifeS))) * 1_000_000_000
			default:
				o.ThinkNs = tp.LifeS * 1_200_000_000
			}
			if shape == 1 {
				o.ThinkNs = int64(r.Range(0, 2000)) // maximum contention
			}
			if shape == 5 {
				if o.Op == "destroy" {
					o.Op, o.SPN = "tgs", spns[r.Intn(pool)]
				}
				if k == 0 {
					o.Op, o.SPN = "tgs", spns[r.Intn(pool)]
					o.ThinkNs = int64(r.Range(0, 3000))
				} else if r.Chance(2, 3) {
					o.ThinkNs = tp.LifeS*1_200_000_000*int64(r.Range(1, 4)) + int64(r.Range(0, 3000))
				} else {
					o.ThinkNs = int64(r.Range(0, 3000))
				}
			}
			if shape == 4 {
				o.ThinkNs = int64(r.Range(0, int(tp.LifeS)*250))*1_000_000 + int64(r.Range(0, 3000))
				if k == 0 {
					// start around the renewal point of the TGT obtained by the login at time 0, with a
					// request that has to go to the KDC (nobody else asks for this service)
					o.Op, o.SPN = "tgs", uniqueSPN(i)
					o.ThinkNs = tp.LifeS*1_000_000_000*5/6 + int64(r.Range(-2000, 8000))*1000 + int64(r.Range(0, 999))
				}
				if k > 0 && r.Chance(1, 2) {
					o.ThinkNs = int64(r.Range(0, 4000)) * 1000
				}
			}
			t.Ops = append(t.Ops, o)
		}
		tp.Tasks = append(tp.Tasks, t)
	}
	if r.Chance(1, 4) {
		// a network outage while the tasks are at work: error paths run next to the ordinary ones
		// (a failing renewal or login beside requests that hold or wait for the session locks)
		life := tp.LifeS * 1_000_000_000
		at := int64(r.Range(0, int(tp.LifeS))) * 1_000_000_000
		if r.Chance(1, 2) {
			at = life*5/6 - int64(r.Range(0, 2000))*1_000_000 // begins up to 2 s before the renewal point of the first TGT
		}
		tp.Outage = &Outage{AtNs: at + int64(r.Range(0, 999_999)), ForNs: []int64{50_000_000, 1_000_000_000, life / 3, life * 12 / 10}[r.Intn(4)], Kind: r.Pick("refuse", "refuse", "close")}
	}
	if tp.NKDC > 1 && r.Chance(1, 4) {
		// the realm's servers come in two blocks of the same name (krb5.conf merges them): what
		// GetKDCs returns is still a permutation of all of them
		tp.Split = r.Pick("block", "section")
	}
	return core.MustJSON(tp), nil
}
