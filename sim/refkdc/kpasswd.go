package refkdc

import (
	"encoding/binary"
	"fmt"
	"sync"
	"time"

	"verifsim/refkrb/rcrypto"
	"verifsim/refkrb/rk"
)

// KPasswd is a reference change-password server (RFC 3244) in front of a KDC's database: it
// authenticates the AP-REQ for kadmin/changepw, opens the KRB-PRIV under the authenticator's
// subkey, records the change and answers AP-REP + KRB-PRIV(result code) or, when it cannot
// authenticate the request at all, a KRB-ERROR body.
type KPasswd struct {
	K *KDC
	// Result, when non-zero, is returned instead of success for an authentic request (the change
	// is then not applied): the server refuses by policy.
	Result     uint16
	ResultText string
	mu         sync.Mutex
	changes    []PasswdChange
}

const ChangePwService = "kadmin/changepw"

// PasswdChange is one request as the server judged it.
type PasswdChange struct {
	At        time.Time
	Client    string
	CRealm    string
	Target    string
	NewPasswd string
	Applied   bool
	Code      uint16
	Note      string
}

func NewKPasswd(k *KDC) *KPasswd {
	if k.DB[ChangePwService] == nil {
		k.AddService(ChangePwService)
	}
	return &KPasswd{K: k}
}

func (s *KPasswd) Changes() []PasswdChange {
	s.mu.Lock()
	defer s.mu.Unlock()
	return append([]PasswdChange{}, s.changes...)
}

func (s *KPasswd) record(c PasswdChange) {
	s.mu.Lock()
	s.changes = append(s.changes, c)
	s.mu.Unlock()
}

func resultData(code uint16, text string) []byte {
	b := make([]byte, 2, 2+len(text))
	binary.BigEndian.PutUint16(b, code)
	return append(b, text...)
}

// ErrorReply frames a KRB-ERROR the way a kpasswd server sends it (AP-REP length zero).
func (s *KPasswd) ErrorReply(code int32, result uint16, text string) []byte {
	k := s.K
	e := rk.KRBError{STime: k.now().Truncate(time.Second), Code: code, Realm: k.Realm, SName: rk.ParseName(ChangePwService), EData: resultData(result, text)}
	return rk.EncKpasswdReply(nil, e.EncBytes())
}

// Handle answers one request.
func (s *KPasswd) Handle(raw []byte) []byte {
	k := s.K
	now := k.now()
	ch := PasswdChange{At: now}
	fail := func(krbCode int32, result uint16, note string) []byte {
		ch.Code, ch.Note = result, note
		s.record(ch)
		return s.ErrorReply(krbCode, result, note)
	}
	fr, err := rk.DecKpasswdRequest(raw)
	if err != nil {
		return fail(rk.ErrGeneric, 1, err.Error())
	}
	if fr.Version != 0xff80 && fr.Version != 1 {
		return fail(rk.ErrGeneric, 6, fmt.Sprintf("protocol version %#x", fr.Version))
	}
	ap, err := rk.DecAPReq(fr.APReq)
	if err != nil {
		return fail(rk.ErrGeneric, 1, "AP-REQ undecodable: "+err.Error())
	}
	if ap.Ticket.SName.String() != ChangePwService || ap.Ticket.Realm != k.Realm {
		return fail(rk.ErrGeneric, 3, "ticket is not for kadmin/changepw of this realm")
	}
	kk, ok := k.DB[ChangePwService].KeyFor(k.Realm, int(ap.Ticket.Enc.Etype))
	if !ok {
		return fail(rk.ErrGeneric, 3, "no service key for the ticket's etype")
	}
	tp, err := rk.Open(ap.Ticket.Enc, kk.Key, rk.KUTicket)
	if err != nil {
		return fail(rk.ErrModified, 3, "ticket does not decrypt")
	}
	tkt, err := rk.DecEncTicketPart(tp)
	if err != nil {
		return fail(rk.ErrGeneric, 1, "ticket enc-part undecodable: "+err.Error())
	}
	ab, err := rk.Open(ap.Auth, tkt.Key, rk.KUAPReqAuth)
	if err != nil {
		return fail(rk.ErrModified, 3, "authenticator does not decrypt under the session key with usage 11")
	}
	au, err := rk.DecAuthenticator(ab)
	if err != nil {
		return fail(rk.ErrGeneric, 1, "authenticator undecodable: "+err.Error())
	}
	ch.Client, ch.CRealm = tkt.CName.String(), tkt.CRealm
	if !au.CName.Equal(tkt.CName) || au.CRealm != tkt.CRealm {
		return fail(rk.ErrModified, 3, "authenticator client does not match the ticket")
	}
	at := au.CTime.Add(time.Duration(au.Cusec) * time.Microsecond)
	if d := now.Sub(at); d > 5*time.Minute || d < -5*time.Minute {
		return fail(rk.ErrSkew, 3, fmt.Sprintf("authenticator time off by %v", d))
	}
	if now.After(tkt.EndTime) {
		return fail(rk.ErrTktExpired, 3, "ticket expired")
	}
	if tkt.Flags&rk.Bit(rk.FlagInitial) == 0 {
		return fail(rk.ErrGeneric, 7, "ticket was not obtained by an AS exchange")
	}
	if au.Subkey == nil {
		return fail(rk.ErrGeneric, 1, "authenticator carries no subkey")
	}
	// from here on the request is authentic: the reply is AP-REP + KRB-PRIV under the subkey
	reply := func(code uint16, text string) []byte {
		ch.Code, ch.Note = code, text
		s.record(ch)
		l := k.log()
		r := k.randFor(l, "kpasswd")
		rep := rk.EncAPRepPart{CTime: au.CTime, Cusec: au.Cusec}
		ed, err := rk.Seal(tkt.Key, rk.KUAPRepEncPart, rep.EncBytes(), r.Bytes(rcrypto.ConfounderSize(int(tkt.Key.Etype))), 0, false)
		if err != nil {
			return s.ErrorReply(rk.ErrGeneric, 2, err.Error())
		}
		ts := now.Truncate(time.Second)
		us := 0
		part := rk.EncKrbPrivPart{UserData: resultData(code, text), Timestamp: &ts, Usec: &us, SeqNumber: au.SeqNumber,
			SAddress: rk.HostAddress{Type: 2, Addr: []byte{10, 0, 1, 1}}}
		pe, err := rk.Seal(*au.Subkey, rk.KUKrbPrivEncPart, part.EncBytes(), r.Bytes(rcrypto.ConfounderSize(int(au.Subkey.Etype))), 0, false)
		if err != nil {
			return s.ErrorReply(rk.ErrGeneric, 2, err.Error())
		}
		return rk.EncKpasswdReply(rk.EncAPRep(ed), rk.EncKRBPriv(pe))
	}
	pe, err := rk.DecKRBPriv(fr.Priv)
	if err != nil {
		return reply(1, "KRB-PRIV undecodable: "+err.Error())
	}
	pb, err := rk.Open(pe, *au.Subkey, rk.KUKrbPrivEncPart)
	if err != nil {
		return reply(3, "KRB-PRIV does not decrypt under the subkey with usage 13")
	}
	part, err := rk.DecEncKrbPrivPart(pb)
	if err != nil {
		return reply(1, "KRB-PRIV enc-part undecodable: "+err.Error())
	}
	if part.SeqNumber != nil && au.SeqNumber != nil && *part.SeqNumber != *au.SeqNumber {
		return reply(1, "KRB-PRIV sequence number differs from the authenticator's")
	}
	var newpw []byte
	target, trealm := tkt.CName.String(), tkt.CRealm
	if fr.Version == 1 {
		newpw = part.UserData
	} else {
		cd, err := rk.DecChangePasswdData(part.UserData)
		if err != nil {
			return reply(1, "ChangePasswdData undecodable: "+err.Error())
		}
		newpw = cd.NewPasswd
		if cd.TargName != nil {
			target = cd.TargName.String()
		}
		if cd.TargRealm != "" {
			trealm = cd.TargRealm
		}
	}
	ch.Target, ch.NewPasswd = target+"@"+trealm, string(newpw)
	if target != tkt.CName.String() || trealm != tkt.CRealm {
		return reply(5, "changing another principal's password is not permitted")
	}
	if len(newpw) == 0 {
		return reply(4, "empty password")
	}
	if s.Result != 0 {
		return reply(s.Result, s.ResultText)
	}
	if p := k.DB[target]; p != nil && p.Password != "" {
		np := *p
		np.Password, np.Kvno, np.derived = string(newpw), p.Kvno+1, nil
		k.DB[target] = &np
	}
	ch.Applied = true
	return reply(0, "")
}
