// Package refkdc is the executable reference model of a KDC (RFC 4120 3.1, 3.3): a principal
// database, a policy, its own clock offset, and an issue log in which every ticket it issues is
// recorded with the session key issued with it.  It is built on refkrb only and shares no code
// with gokrb5.  A KDC value has no mutable state shared between simulated tasks: keys come from a
// PRNG keyed by (seed, realm, task, per-task counter) and the logs are kept per task, so that the
// model neither perturbs determinism nor creates happens-before edges under the race detector.
package refkdc

import (
	"fmt"
	"sort"
	"strings"
	"sync"
	"time"

	"verifsim/core"
	"verifsim/refkrb/der"
	"verifsim/refkrb/rcrypto"
	"verifsim/refkrb/rk"
)

type Key struct {
	Kvno int
	Key  rk.EncryptionKey
}

type Principal struct {
	Name      string // "alice", "HTTP/host.sim.test", "krbtgt/SIM.TEST"
	Password  string // users with a password: keys are derived on demand
	Salt      string // "" = default salt (realm + name components)
	Iter      int    // 0 = default string-to-key parameters
	Kvno      int
	Keys      map[int]Key // keytab style principals and services: etype -> key
	NoPreauth bool        // overrides policy: this principal never needs pre-authentication
	derived   map[int]Key
	Earlier map[int]Key // keys derived under earlier string-to-key parameters (Rekey)
}

// Policy is what varies between conformant KDCs.
type Policy struct {
	RequirePreauth bool          `json:"require_preauth"`
	Hints          []string      `json:"hints,omitempty"`        // PA hints in PREAUTH_REQUIRED e-data, in this order: etype-info2 | etype-info | pw-salt
	HintsInASRep   bool          `json:"hints_in_asrep"`         // also send ETYPE-INFO2 in the AS-REP padata
	MaxLifeS       int64         `json:"max_life_s"`             // 0 = 24h
	MaxRenewS      int64         `json:"max_renew_s"`            // 0 = 7d
	CopyAddresses  bool          `json:"copy_addresses"`         // copy requested addresses into tickets
	OmitStartTime  bool          `json:"omit_starttime"`         // starttime is optional in tickets and replies
	KvnoInReply    bool          `json:"kvno_in_reply"`          // send kvno in the enc-part of the AS-REP
	Etypes         []int         `json:"etypes,omitempty"`       // what the KDC supports (nil = all six)
	TktEtype       int           `json:"tkt_etype,omitempty"`    // etype of the service/TGT long-term key used (0 = strongest available)
	ClockOffset    time.Duration `json:"clock_offset,omitempty"` // KDC clock = simulated clock + offset
	LatencyNs      int64         `json:"latency_ns,omitempty"`
	// LenientAuthCRealm: the TGS compares only the client name of the PA-TGS-REQ authenticator with
	// the ticket, not the realm.  Not conformant (RFC 4120 3.2.3); used to let referral chains run
	// past the second hop so that the bound on chains can be exercised at all.
	LenientAuthCRealm bool `json:"lenient_auth_crealm,omitempty"`
	// ExpiryGraceS: a ticket presented in a TGS-REQ is refused as expired only when the current time
	// is later than its end time by more than this allowance (RFC 4120 3.2.3: "later than end time
	// by more than the allowable clock skew"); 0 = no allowance.  Both are conformant.
	ExpiryGraceS int64 `json:"expiry_grace_s,omitempty"`
	// TerseErrors: KRB-ERRORs carry none of the optional cname/crealm.  OmitDefaultSalt: ETYPE-INFO2
	// entries of a principal with the default salt carry no salt (the field is optional: absent
	// means default).  Both conformant.
	// TerseASRep: the AS-REP to a pre-authenticated request does not repeat the string-to-key hints
	// (RFC 4120 5.2.7.5: they MAY be sent in the reply).
	TerseASRep      bool `json:"terse_asrep,omitempty"`
	TerseErrors     bool `json:"terse_errors,omitempty"`
	// FASTNegotiation: the KDC takes part in the RFC 6806 section 11 negotiation, as MIT and Active
	// Directory KDCs do: when the AS-REQ carries PA-REQ-ENC-PA-REP the reply has the enc-pa-rep flag
	// and, sealed in its encrypted part, a checksum over the request under the reply key (key usage
	// 56) together with an (empty) PA-FX-FAST
	FASTNegotiation bool `json:"fast_negotiation,omitempty"`
	// ErrorSName: what the (mandatory) sname of a KRB-ERROR holds.  "" = the service the request
	// names (MIT); "empty" = a name without components, which is what Heimdal writes for errors it
	// raises without having a server principal at hand (RESPONSE_TOO_BIG among them); "krbtgt" = the
	// realm's ticket-granting service whatever was asked for
	ErrorSName string `json:"error_sname,omitempty"`
	OmitDefaultSalt bool `json:"omit_default_salt,omitempty"`
	// TicketAuthDataPad: every ticket carries this many bytes of authorization data (as tickets with a
	// PAC of many group memberships do): the size of the replies grows by as much.
	TicketAuthDataPad int `json:"ticket_authdata_pad,omitempty"`
	// S2KParamsForAll: ETYPE-INFO2 carries 4-byte s2kparams also for des3 and rc4 (which define none)
	// and for AES principals with default parameters: drives clients into their parameter error paths.
	S2KParamsForAll bool `json:"s2kparams_for_all,omitempty"`
}

// Issue is one record of the issue log.
type Issue struct {
	Serial     string
	Kind       string // as | tgs | renew | referral
	Realm      string
	Client     string
	CRealm     string
	SName      string
	SRealm     string
	SessionKey rk.EncryptionKey
	TicketEnc  []byte // ciphertext of the ticket's enc-part (identifies the ticket bit for bit)
	TicketRaw  []byte // the encoded Ticket
	TicketKey  rk.EncryptionKey
	AuthTime   time.Time
	Start      time.Time
	End        time.Time
	RenewTill  *time.Time
	Flags      uint32
	Nonce      int64
	Task       int
	At         time.Time // simulated instant of issue
	ReqEtypes  []int32
	Addresses  []rk.HostAddress
}

// ReqRecord is one request as the KDC received it.
type ReqRecord struct {
	At        time.Time
	Task      int
	Realm     string
	Req       *rk.KDCReq
	Raw       []byte
	Verdict   string   // issued:<serial> | error:<code> | undecodable
	Notes     []string // oracle-relevant observations (bad checksum, bad timestamp ...)
	PAKeyOK   *bool    // PA-ENC-TIMESTAMP decrypted under the key the KDC advertised
	PAEtype   int32    // etype of the PA-ENC-TIMESTAMP's EncryptedData (0 = none or undecodable)
	PATime    *time.Time
	Renew     bool
	TGTCipher []byte // enc-part ciphertext of the TGT presented (TGS)
	TGTRealm  string
	HdrRealm  string // TGS: issuing realm and service name of the ticket in the PA-TGS-REQ, as labelled (set even when the request is refused)
	HdrSName  string
}

type taskLog struct {
	mu     sync.Mutex // contended only by the collector at the end of the run
	issues []Issue
	reqs   []*ReqRecord
	n      int
}

type KDC struct {
	Realm  string
	Seed   uint64
	DB     map[string]*Principal
	Policy Policy
	// Referral: service principal -> realm that holds it (the KDC answers with a cross-realm TGT
	// for the next hop towards that realm).
	Referral map[string]string
	// NextHop: target realm -> realm of the cross-realm TGT to hand out (default: the target itself)
	NextHop map[string]string
	Now     func() time.Time
	TaskID  func() int
	logs    [512]taskLog
	Peers   map[string]*KDC // other realms (for cross-realm key agreement)
	// PlainHook is applied to the plaintext of a reply's encrypted part when the perturbation
	// "enc-plain-hook" is asked for.
	PlainHook func(kind string, plain []byte) []byte
}

func New(realm string, seed uint64, pol Policy) *KDC {
	k := &KDC{Realm: realm, Seed: seed, DB: map[string]*Principal{}, Policy: pol, Referral: map[string]string{}, NextHop: map[string]string{},
		Now: time.Now, TaskID: func() int { return 0 }, Peers: map[string]*KDC{}}
	k.AddService("krbtgt/" + realm)
	return k
}

func (k *KDC) supports(et int) bool {
	if !rcrypto.Supported(et) {
		return false
	}
	if k.Policy.Etypes == nil {
		return true
	}
	for _, e := range k.Policy.Etypes {
		if e == et {
			return true
		}
	}
	return false
}

// KeyOf derives the long-term key of a keyed principal deterministically.
func KeyOf(seed uint64, realm, name string, kvno, et int) rk.EncryptionKey {
	r := core.NewRng(seed).Derive(fmt.Sprintf("kdc/%s/%s/%d/%d", realm, name, kvno, et))
	b, err := rcrypto.RandomToKey(et, r.Bytes(rcrypto.SeedSize(et)))
	if err != nil {
		panic(err)
	}
	return rk.EncryptionKey{Etype: int32(et), Value: b}
}

// AddService registers a principal with random keys for all etypes.
func (k *KDC) AddService(name string) *Principal {
	p := &Principal{Name: name, Kvno: 2, Keys: map[int]Key{}, NoPreauth: true}
	for _, et := range rcrypto.AllEtypes {
		p.Keys[et] = Key{2, KeyOf(k.Seed, k.Realm, name, 2, et)}
	}
	k.DB[name] = p
	return p
}

// AddKeyUser registers a user whose keys are in a keytab (random keys).
func (k *KDC) AddKeyUser(name string, kvno int) *Principal {
	p := &Principal{Name: name, Kvno: kvno, Keys: map[int]Key{}}
	for _, et := range rcrypto.AllEtypes {
		p.Keys[et] = Key{kvno, KeyOf(k.Seed, k.Realm, name, kvno, et)}
	}
	k.DB[name] = p
	return p
}

// AddPasswordUser registers a user whose keys derive from a password.
func (k *KDC) AddPasswordUser(name, password, salt string, iter int) *Principal {
	p := &Principal{Name: name, Password: password, Salt: salt, Iter: iter, Kvno: 1}
	k.DB[name] = p
	return p
}

// Link makes two realms trust each other: krbtgt/B@A and krbtgt/A@B share keys known to both.
func Link(a, b *KDC) {
	a.Peers[b.Realm], b.Peers[a.Realm] = b, a
	for _, pair := range [][2]*KDC{{a, b}, {b, a}} {
		from, to := pair[0], pair[1]
		name := "krbtgt/" + to.Realm
		p := &Principal{Name: name, Kvno: 1, Keys: map[int]Key{}, NoPreauth: true}
		for _, et := range rcrypto.AllEtypes {
			p.Keys[et] = Key{1, KeyOf(from.Seed^to.Seed, "xrealm", from.Realm+">"+to.Realm, 1, et)}
		}
		from.DB[name] = p
	}
}

func (p *Principal) salt(realm string) string {
	if p.Salt != "" {
		return p.Salt
	}
	return realm + strings.Join(strings.Split(p.Name, "/"), "")
}

func (p *Principal) s2kparams(et int) []byte {
	if p.Iter == 0 {
		return nil
	}
	switch et {
	case 17, 18, 19, 20:
		return []byte{byte(p.Iter >> 24), byte(p.Iter >> 16), byte(p.Iter >> 8), byte(p.Iter)}
	}
	return nil
}

// Precompute derives the password keys for the etypes a run will use.  It is called while the
// world is built (one goroutine); afterwards the map is only read, so tasks share no mutable state
// through it (PBKDF2 is by far the most expensive step of a run).
func (p *Principal) Precompute(realm string, etypes []int) {
	if p.Password == "" {
		return
	}
	if p.derived == nil {
		p.derived = map[int]Key{}
	}
	for _, et := range etypes {
		if _, ok := p.derived[et]; ok || !rcrypto.Supported(et) {
			continue
		}
		kb, err := rcrypto.StringToKey(et, p.Password, p.salt(realm), p.s2kparams(et))
		if err == nil {
			p.derived[et] = Key{p.Kvno, rk.EncryptionKey{Etype: int32(et), Value: kb}}
		}
	}
}

// Rekey gives a password principal new string-to-key parameters (same password, next key version),
// as when an administrator raises the iteration count and the account's keys are derived afresh.
// The keys derived before are remembered as the account's earlier keys.
func (p *Principal) Rekey(realm string, iter int, etypes []int) {
	if p.Password == "" {
		return
	}
	p.Precompute(realm, etypes)
	p.Earlier = p.derived
	p.derived = nil
	p.Iter = iter
	p.Kvno++
	p.Precompute(realm, etypes)
}

// KeyFor returns the principal's key for an etype.
func (p *Principal) KeyFor(realm string, et int) (Key, bool) {
	if p.Keys != nil {
		k, ok := p.Keys[et]
		return k, ok
	}
	if !rcrypto.Supported(et) {
		return Key{}, false
	}
	if k, ok := p.derived[et]; ok {
		return k, true
	}
	kb, err := rcrypto.StringToKey(et, p.Password, p.salt(realm), p.s2kparams(et))
	if err != nil {
		return Key{}, false
	}
	return Key{p.Kvno, rk.EncryptionKey{Etype: int32(et), Value: kb}}, true
}

func (k *KDC) now() time.Time { return k.Now().UTC().Add(k.Policy.ClockOffset) }

func (k *KDC) log() *taskLog { return &k.logs[k.TaskID()&511] }

// randFor returns the PRNG for the next object this task asks the KDC to create.
func (k *KDC) randFor(l *taskLog, what string) *core.Rng {
	l.n++
	return core.NewRng(k.Seed).Derive(fmt.Sprintf("%s/%s/t%d/%d", k.Realm, what, k.TaskID(), l.n))
}

// Issues returns the merged issue log of all tasks.
func (k *KDC) Issues() []Issue {
	var out []Issue
	for i := range k.logs {
		l := &k.logs[i]
		l.mu.Lock()
		out = append(out, l.issues...)
		l.mu.Unlock()
	}
	sort.Slice(out, func(i, j int) bool {
		if !out[i].At.Equal(out[j].At) {
			return out[i].At.Before(out[j].At)
		}
		return out[i].Serial < out[j].Serial
	})
	return out
}

// Requests returns the merged request log.
func (k *KDC) Requests() []*ReqRecord {
	var out []*ReqRecord
	for i := range k.logs {
		l := &k.logs[i]
		l.mu.Lock()
		out = append(out, l.reqs...)
		l.mu.Unlock()
	}
	sort.SliceStable(out, func(i, j int) bool {
		if !out[i].At.Equal(out[j].At) {
			return out[i].At.Before(out[j].At)
		}
		return out[i].Task < out[j].Task
	})
	return out
}

// FindIssue looks a ticket up by the ciphertext of its encrypted part.
func FindIssue(is []Issue, ticketCipher []byte) *Issue {
	for i := range is {
		if string(is[i].TicketEnc) == string(ticketCipher) {
			return &is[i]
		}
	}
	return nil
}

func (k *KDC) errReply(code int32, req *rk.KDCReq, edata []byte, etext string) []byte {
	e := rk.KRBError{STime: k.now().Truncate(time.Second), Susec: 0, Code: code, Realm: k.Realm, SName: rk.ParseName("krbtgt/" + k.Realm), EData: edata}
	if req != nil {
		if req.SName != nil {
			e.SName = *req.SName
		}
		if req.CName != nil && !k.Policy.TerseErrors {
			e.CName = req.CName
			cr := req.Realm
			e.CRealm = &cr
		}
	}
	switch k.Policy.ErrorSName {
	case "empty":
		e.SName = rk.PrincipalName{Type: 0, Names: []string{}}
	case "krbtgt":
		e.SName = rk.ParseName("krbtgt/" + k.Realm)
	}
	if etext != "" {
		e.EText = &etext
	}
	return e.EncBytes()
}

// HintsEData returns the e-data (METHOD-DATA) the KDC would attach to a pre-authentication error for
// the client of the request: what a forger who has watched one honest exchange can send as well.
func (k *KDC) HintsEData(raw []byte) []byte {
	req, err := rk.DecKDCReq(raw)
	if err != nil || req.CName == nil {
		return nil
	}
	cp := k.DB[req.CName.String()]
	if cp == nil {
		return nil
	}
	return rk.EncPADataSeq(k.hintsFor(cp, req))
}

// ErrorReply builds a KRB-ERROR with an arbitrary code (used by fault behaviours).
func (k *KDC) ErrorReply(code int32, raw []byte, edata []byte) []byte {
	req, _ := rk.DecKDCReq(raw)
	return k.errReply(code, req, edata, "")
}

// Perturb asks the KDC to deviate from the honest reply in one named way (property C09).
type Perturb struct {
	Kind string `json:"kind"`
	Arg  int64  `json:"arg,omitempty"`
}

// Handle answers one request.  The reply is either a KDC-REP or a KRB-ERROR.
func (k *KDC) Handle(raw []byte, pt []Perturb) []byte {
	l := k.log()
	rec := &ReqRecord{At: k.Now().UTC(), Task: k.TaskID(), Realm: k.Realm, Raw: append([]byte{}, raw...)}
	l.mu.Lock()
	l.reqs = append(l.reqs, rec)
	l.mu.Unlock()
	req, err := rk.DecKDCReq(raw)
	if err != nil {
		rec.Verdict = "undecodable"
		rec.Notes = append(rec.Notes, err.Error())
		return k.errReply(rk.ErrGeneric, nil, nil, "cannot decode request")
	}
	rec.Req = req
	var reply []byte
	var code int32
	if req.MsgType == rk.MsgASReq {
		reply, code = k.handleAS(req, rec, l, pt)
	} else {
		reply, code = k.handleTGS(req, rec, l, pt)
	}
	if code != 0 {
		rec.Verdict = fmt.Sprintf("error:%d", code)
	}
	return reply
}

func (k *KDC) hintsFor(p *Principal, req *rk.KDCReq) []rk.PAData {
	return k.hintsWith(p, req, k.Policy.Hints)
}

func (k *KDC) hintsWith(p *Principal, req *rk.KDCReq, hints []string) []rk.PAData {
	var usable []int
	for _, e := range req.Etypes {
		if _, ok := p.KeyFor(k.Realm, int(e)); ok && k.supports(int(e)) {
			usable = append(usable, int(e))
		}
	}
	if len(hints) == 0 {
		hints = []string{"etype-info2"}
	}
	var pas []rk.PAData
	for _, h := range hints {
		switch h {
		case "etype-info2":
			var es []rk.ETypeInfo2Entry
			for _, e := range usable {
				s := p.salt(k.Realm)
				ent := rk.ETypeInfo2Entry{Etype: int32(e), S2KParams: p.s2kparams(e)}
				if k.Policy.S2KParamsForAll && ent.S2KParams == nil {
					ent.S2KParams = []byte{0, 0, 0x10, 0} // a KDC that sends parameters for etypes that define none
				}
				if e != 23 && !(k.Policy.OmitDefaultSalt && p.Salt == "") {
					ent.Salt = &s
				}
				es = append(es, ent)
			}
			pas = append(pas, rk.PAData{Type: rk.PAETypeInfo2, Value: rk.EncETypeInfo2(es)})
		case "etype-info":
			var es []rk.ETypeInfoEntry
			for _, e := range usable {
				es = append(es, rk.ETypeInfoEntry{Etype: int32(e), Salt: []byte(p.salt(k.Realm))})
			}
			pas = append(pas, rk.PAData{Type: rk.PAETypeInfo, Value: rk.EncETypeInfo(es)})
		case "pw-salt":
			pas = append(pas, rk.PAData{Type: rk.PAPWSalt, Value: []byte(p.salt(k.Realm))})
		case "enc-timestamp":
			pas = append(pas, rk.PAData{Type: rk.PAEncTS, Value: []byte{}})
		}
	}
	return pas
}

// HintsNeedS2K reports whether the principal's keys cannot be derived without hints.
func (p *Principal) NonDefaultS2K() bool { return p.Password != "" && (p.Salt != "" || p.Iter != 0) }

func (k *KDC) pickTicketKey(sp *Principal) (Key, bool) {
	order := []int{k.Policy.TktEtype, 18, 20, 17, 19, 16, 23}
	for _, et := range order {
		if et == 0 || !k.supports(et) {
			continue
		}
		if key, ok := sp.KeyFor(k.Realm, et); ok {
			return key, true
		}
	}
	return Key{}, false
}

func (k *KDC) lifetimes(req *rk.KDCReq, now time.Time, renewLimit *time.Time) (start, end time.Time, renewTill *time.Time) {
	maxLife := time.Duration(k.Policy.MaxLifeS) * time.Second
	if maxLife == 0 {
		maxLife = 24 * time.Hour
	}
	maxRenew := time.Duration(k.Policy.MaxRenewS) * time.Second
	if maxRenew == 0 {
		maxRenew = 7 * 24 * time.Hour
	}
	start = now.Truncate(time.Second)
	end = start.Add(maxLife)
	if !req.Till.IsZero() && req.Till.Unix() > 0 && req.Till.Before(end) {
		end = req.Till
	}
	if req.Options&rk.Bit(rk.FlagRenewable) != 0 && req.RTime != nil {
		rt := start.Add(maxRenew)
		if req.RTime.Before(rt) {
			rt = *req.RTime
		}
		if renewLimit != nil && renewLimit.Before(rt) {
			rt = *renewLimit
		}
		if rt.After(end) {
			renewTill = &rt
		}
	}
	return
}

func (k *KDC) handleAS(req *rk.KDCReq, rec *ReqRecord, l *taskLog, pt []Perturb) ([]byte, int32) {
	now := k.now()
	if req.CName == nil || req.SName == nil {
		return k.errReply(rk.ErrGeneric, req, nil, "cname and sname required"), rk.ErrGeneric
	}
	if req.Realm != k.Realm {
		return k.errReply(rk.ErrWrongRealm, req, nil, ""), rk.ErrWrongRealm
	}
	cp := k.DB[req.CName.String()]
	if cp == nil {
		return k.errReply(rk.ErrCPrincipalUnknown, req, nil, ""), rk.ErrCPrincipalUnknown
	}
	sp := k.DB[req.SName.String()]
	if sp == nil {
		return k.errReply(rk.ErrSPrincipalUnknown, req, nil, ""), rk.ErrSPrincipalUnknown
	}
	// reply key: first requested etype the client has a key for
	var ckey Key
	found := false
	for _, e := range req.Etypes {
		if !k.supports(int(e)) {
			continue
		}
		if kk, ok := cp.KeyFor(k.Realm, int(e)); ok {
			ckey, found = kk, true
			break
		}
	}
	if !found {
		return k.errReply(rk.ErrEtypeNoSupp, req, nil, ""), rk.ErrEtypeNoSupp
	}
	preauthed := false
	if pa := rk.FindPA(req.PAData, rk.PAEncTS); pa != nil {
		ed, err := rk.DecEncData(pa.Value)
		okKey := false
		if err == nil {
			rec.PAEtype = ed.Etype
			if pk, ok := cp.KeyFor(k.Realm, int(ed.Etype)); ok {
				if pt, err := rk.Open(ed, pk.Key, rk.KUPAEncTS); err == nil {
					okKey = true
					if ts, us, err := rk.DecPAEncTS(pt); err == nil {
						t := ts.Add(time.Duration(us) * time.Microsecond)
						rec.PATime = &t
						d := now.Sub(t)
						if d < 0 {
							d = -d
						}
						if d <= 5*time.Minute {
							preauthed = true
						} else {
							rec.Notes = append(rec.Notes, fmt.Sprintf("pa-enc-timestamp off by %v", d))
						}
					} else {
						rec.Notes = append(rec.Notes, "pa-enc-timestamp plaintext undecodable: "+err.Error())
					}
				}
			}
		}
		rec.PAKeyOK = &okKey
		if !preauthed {
			return k.errReply(rk.ErrPreauthFailed, req, rk.EncPADataSeq(k.hintsFor(cp, req)), ""), rk.ErrPreauthFailed
		}
	}
	if k.Policy.RequirePreauth && !cp.NoPreauth && !preauthed {
		edata := rk.EncPADataSeq(k.hintsFor(cp, req))
		for _, p := range pt {
			switch p.Kind {
			case "edata-empty-info2":
				edata = rk.EncPADataSeq([]rk.PAData{{Type: rk.PAETypeInfo2, Value: rk.EncETypeInfo2(nil)}})
			case "edata-empty-info":
				edata = rk.EncPADataSeq([]rk.PAData{{Type: rk.PAETypeInfo, Value: rk.EncETypeInfo(nil)}})
			case "edata-empty-seq":
				edata = rk.EncPADataSeq(nil)
			case "edata-garbage":
				edata = []byte{0x30, 0x82, 0xff, 0xff, 1, 2, 3}
			case "edata-absent":
				edata = nil
			case "edata-unknown-etype":
				s := "salt"
				edata = rk.EncPADataSeq([]rk.PAData{{Type: rk.PAETypeInfo2, Value: rk.EncETypeInfo2([]rk.ETypeInfo2Entry{{Etype: 99, Salt: &s}})}})
			case "edata-other-etype":
				// the hints name one etype only, and not the one the client asked for first
				s := cp.salt(k.Realm)
				et := int32(17)
				if len(req.Etypes) > 0 && req.Etypes[0] == 17 {
					et = 18
				}
				edata = rk.EncPADataSeq([]rk.PAData{{Type: rk.PAETypeInfo2, Value: rk.EncETypeInfo2([]rk.ETypeInfo2Entry{{Etype: et, Salt: &s}})}})
			case "edata-s2k-iter":
				// the hint for the first requested etype carries this PBKDF2 iteration count (4 bytes,
				// big-endian): 0, or a count that would take a client hours
				s := cp.salt(k.Realm)
				et := int32(18)
				if len(req.Etypes) > 0 {
					et = req.Etypes[0]
				}
				it := uint32(p.Arg)
				edata = rk.EncPADataSeq([]rk.PAData{{Type: rk.PAETypeInfo2, Value: rk.EncETypeInfo2([]rk.ETypeInfo2Entry{{Etype: et, Salt: &s,
					S2KParams: []byte{byte(it >> 24), byte(it >> 16), byte(it >> 8), byte(it)}}})}})
			case "edata-prefix":
				if int(p.Arg) < len(edata) {
					edata = edata[:p.Arg]
				}
			}
		}
		return k.errReply(rk.ErrPreauthRequired, req, edata, ""), rk.ErrPreauthRequired
	}
	tkey, ok := k.pickTicketKey(sp)
	if !ok {
		return k.errReply(rk.ErrEtypeNoSupp, req, nil, ""), rk.ErrEtypeNoSupp
	}
	// session key: first requested etype the KDC supports
	set := 0
	for _, e := range req.Etypes {
		if k.supports(int(e)) {
			set = int(e)
			break
		}
	}
	if set == 0 {
		return k.errReply(rk.ErrEtypeNoSupp, req, nil, ""), rk.ErrEtypeNoSupp
	}
	r := k.randFor(l, "as")
	skb, _ := rcrypto.RandomToKey(set, r.Bytes(rcrypto.SeedSize(set)))
	sess := rk.EncryptionKey{Etype: int32(set), Value: skb}
	start, end, renewTill := k.lifetimes(req, now, nil)
	flags := rk.Bit(rk.FlagInitial)
	if preauthed {
		flags |= rk.Bit(rk.FlagPreAuthent)
	}
	for _, f := range []int{rk.FlagForwardable, rk.FlagProxiable} {
		if req.Options&rk.Bit(f) != 0 {
			flags |= rk.Bit(f)
		}
	}
	if renewTill != nil {
		flags |= rk.Bit(rk.FlagRenewable)
	}
	var caddr []rk.HostAddress
	if k.Policy.CopyAddresses && req.Addresses != nil {
		caddr = req.Addresses
	}
	serial := fmt.Sprintf("%s/as/t%d/%d", k.Realm, k.TaskID(), l.n)
	return k.issue(issueArgs{kind: "as", req: req, rec: rec, l: l, r: r, pt: pt, serial: serial,
		cname: *req.CName, crealm: k.Realm, sname: *req.SName, tkey: tkey, sess: sess,
		flags: flags, authtime: start, start: start, end: end, renewTill: renewTill, caddr: caddr,
		replyKey: ckey.Key, replyKvno: ckey.Kvno, replyUsage: rk.KUASRepEncPart, msgType: rk.MsgASRep, encTag: 25,
		padata: k.asRepPAData(cp, req, preauthed)}), 0
}

func (k *KDC) asRepPAData(cp *Principal, req *rk.KDCReq, preauthed bool) []rk.PAData {
	if k.Policy.TerseASRep && preauthed {
		// the client has proved that it knows how the key is derived
		return nil
	}
	if !k.Policy.HintsInASRep && !cp.NonDefaultS2K() {
		return nil
	}
	if cp.Password == "" {
		return nil
	}
	// a conformant KDC tells the client how to derive the reply key (RFC 4120 5.2.7.5)
	pas := k.hintsFor(cp, req)
	var out []rk.PAData
	has2 := false
	for _, p := range pas {
		if p.Type != rk.PAEncTS {
			out = append(out, p)
		}
		has2 = has2 || p.Type == rk.PAETypeInfo2
	}
	if !has2 {
		// RFC 4120 5.2.7.5: ETYPE-INFO2 is how the reply key's salt and parameters reach the client
		out = append(out, k.hintsWith(cp, req, []string{"etype-info2"})...)
	}
	return out
}

type issueArgs struct {
	kind       string
	req        *rk.KDCReq
	rec        *ReqRecord
	l          *taskLog
	r          *core.Rng
	pt         []Perturb
	serial     string
	cname      rk.PrincipalName
	crealm     string
	sname      rk.PrincipalName
	tkey       Key
	sess       rk.EncryptionKey
	flags      uint32
	authtime   time.Time
	start, end time.Time
	renewTill  *time.Time
	caddr      []rk.HostAddress
	replyKey   rk.EncryptionKey
	replyKvno  int
	replyUsage uint32
	msgType    int
	encTag     int
	padata     []rk.PAData
	transited  []byte
}

// issue seals the ticket and the reply, logs the issue, and applies the perturbation if any.
func (k *KDC) issue(a issueArgs) []byte {
	etp := rk.EncTicketPart{Flags: a.flags, Key: a.sess, CRealm: a.crealm, CName: a.cname, TrType: 1, TrData: a.transited,
		AuthTime: a.authtime, EndTime: a.end, RenewTill: a.renewTill, CAddr: a.caddr}
	if !k.Policy.OmitStartTime {
		st := a.start
		etp.StartTime = &st
	}
	if n := k.Policy.TicketAuthDataPad; n > 0 {
		etp.AuthData = append(etp.AuthData, rk.AuthDataEntry{Type: 1, Data: rk.EncAuthData([]rk.AuthDataEntry{{Type: 71, Data: make([]byte, n)}})})
	}
	tenc, err := rk.Seal(a.tkey.Key, rk.KUTicket, etp.EncBytes(), a.r.Bytes(rcrypto.ConfounderSize(int(a.tkey.Key.Etype))), int64(a.tkey.Kvno), true)
	if err != nil {
		return k.errReply(rk.ErrGeneric, a.req, nil, err.Error())
	}
	tkt := rk.Ticket{Realm: k.Realm, SName: a.sname, Enc: tenc}
	iss := Issue{Serial: a.serial, Kind: a.kind, Realm: k.Realm, Client: a.cname.String(), CRealm: a.crealm, SName: a.sname.String(), SRealm: k.Realm,
		SessionKey: a.sess, TicketEnc: tenc.Cipher, TicketRaw: tkt.EncBytes(), TicketKey: a.tkey.Key, AuthTime: a.authtime, Start: a.start, End: a.end, RenewTill: a.renewTill,
		Flags: a.flags, Nonce: a.req.Nonce, Task: k.TaskID(), At: k.Now().UTC(), ReqEtypes: a.req.Etypes, Addresses: a.caddr}
	a.l.mu.Lock()
	a.l.issues = append(a.l.issues, iss)
	a.l.mu.Unlock()
	a.rec.Verdict = "issued:" + a.serial
	ep := rk.EncKDCRepPart{Key: a.sess, LastReqs: []rk.LastReq{{Type: 0, Value: a.authtime}}, Nonce: a.req.Nonce, Flags: a.flags,
		AuthTime: a.authtime, EndTime: a.end, RenewTill: a.renewTill, SRealm: k.Realm, SName: a.sname, CAddr: a.caddr}
	if !k.Policy.OmitStartTime {
		st := a.start
		ep.StartTime = &st
	}
	if a.kind == "as" && k.Policy.FASTNegotiation && a.req != nil && a.rec != nil {
		asked := false
		for _, pa := range a.req.PAData {
			asked = asked || pa.Type == rk.PAReqEncPARep
		}
		if asked {
			et := int(a.replyKey.Etype)
			if ck, err := rcrypto.Checksum(et, a.replyKey.Value, 56, a.rec.Raw); err == nil {
				ckType := int64(rcrypto.ChecksumType(et))
				for _, pt := range a.pt {
					switch pt.Kind {
					case "encpa-bad-checksum":
						ck = append([]byte{}, ck...)
						ck[len(ck)/2] ^= 0x40
					case "encpa-short-checksum":
						ck = ck[:1]
					case "encpa-unknown-cksumtype":
						ckType = 0x7fff
					}
				}
				ep.Flags |= rk.Bit(15) // enc-pa-rep
				ep.EncPA = []rk.PAData{
					{Type: rk.PAReqEncPARep, Value: der.Seq(der.Ctx(0, der.Int(ckType)), der.Ctx(1, der.OctetString(ck)))},
					{Type: 136, Value: []byte{}},
				}
				for _, pt := range a.pt {
					switch pt.Kind {
					case "encpa-no-fast":
						ep.EncPA = ep.EncPA[:1]
					case "encpa-garbage":
						ep.EncPA[0].Value = []byte{0x30, 0x84, 0xff, 0xff, 0xff, 0xff}
					case "encpa-empty-value":
						ep.EncPA[0].Value = []byte{}
					}
				}
				a.rec.Notes = append(a.rec.Notes, "fast-negotiation-answered")
			}
		}
	}
	rep := rk.KDCRep{MsgType: a.msgType, PAData: a.padata, CRealm: a.crealm, CName: a.cname, Ticket: tkt}
	replyKey, usage, encTag := a.replyKey, a.replyUsage, a.encTag
	// ---- perturbations of the reply (C09).  The issue log records the honest issue.
	for _, pt := range a.pt {
		switch pt.Kind {
		case "nonce":
			ep.Nonce += pt.Arg
		case "cname":
			rep.CName = rk.ParseName(a.cname.String() + "x")
		case "cname-extra":
			rep.CName = rk.ParseName(a.cname.String() + "/admin")
		case "cname-regroup":
			// the same characters in other components: {"a","b"} becomes the one component "a/b"
			// (and a one-component name {"a"} becomes {"a",""})
			if len(a.cname.Names) > 1 {
				rep.CName = rk.PrincipalName{Type: a.cname.Type, Names: []string{a.cname.String()}}
			} else {
				rep.CName = rk.PrincipalName{Type: a.cname.Type, Names: []string{a.cname.String(), ""}}
			}
		case "crealm":
			rep.CRealm = "EVIL.TEST"
		case "sealed-sname":
			ep.SName = rk.ParseName("krbtgt/EVIL.TEST")
			if a.kind != "as" {
				ep.SName = rk.ParseName("HTTP/evil.sim.test")
			}
		case "sealed-srealm":
			ep.SRealm = "EVIL.TEST"
		case "ticket-realm":
			rep.Ticket.Realm = "EVIL.TEST"
		case "ticket-sname":
			// the clear-text name field of the ticket; the sealed reply part keeps the honest name
			rep.Ticket.SName = rk.ParseName("krbtgt/EVIL.TEST")
			if a.kind != "as" {
				rep.Ticket.SName = rk.ParseName("HTTP/evil.sim.test")
			}
		case "starttime":
			// only the start time the reply announces is off by Arg (authtime stays honest)
			if ep.StartTime != nil {
				t := a.start.Add(time.Duration(pt.Arg))
				ep.StartTime = &t
			}
		case "caddr-added":
			ep.CAddr = append(append([]rk.HostAddress{}, ep.CAddr...), rk.HostAddress{Type: 2, Addr: []byte{6, 6, 6, 6}})
		case "caddr-dropped":
			ep.CAddr = nil
		case "authtime":
			// the KDC's idea of "now" is off by Arg: authtime (AS) resp. authtime and starttime (TGS)
			t := a.start.Add(time.Duration(pt.Arg))
			ep.AuthTime = t
			if a.kind != "as" {
				ep.StartTime = &t
			}
		case "authtime-year":
			// the KDC's clock is in another era: authtime (and starttime) on 1 January of that year
			t := time.Date(int(pt.Arg), 1, 1, 0, 0, 0, 0, time.UTC)
			ep.AuthTime = t
			if a.kind != "as" {
				ep.StartTime = &t
			}
		case "other-key":
			replyKey = KeyOf(k.Seed, k.Realm, "stranger", 9, int(replyKey.Etype))
		case "key-of-earlier-s2kparams":
			// the reply is sealed under the key the account had before it was re-keyed (same password
			// and salt, other string-to-key parameters), while the hints name the current parameters
			if p := k.DB[a.cname.String()]; p != nil && a.kind == "as" {
				if ek, ok := p.Earlier[int(replyKey.Etype)]; ok {
					replyKey = ek.Key
				}
			}
		case "other-usage":
			usage = uint32(pt.Arg)
		case "enc-tag":
			encTag = int(pt.Arg)
		case "msg-type":
			rep.MsgType = int(pt.Arg)
		}
	}
	conf := a.r.Bytes(rcrypto.ConfounderSize(int(replyKey.Etype)))
	plain := ep.EncBytes(encTag)
	for _, pt := range a.pt {
		switch pt.Kind {
		case "tkt-sname-empty":
			rep.Ticket.SName = rk.PrincipalName{Type: 2}
		case "rep-cname-empty":
			rep.CName = rk.PrincipalName{Type: 1}
		case "sealed-sname-empty":
			ep.SName = rk.PrincipalName{Type: 2}
			plain = ep.EncBytes(encTag)
		case "enc-plain-garbage":
			plain = a.r.Bytes(int(pt.Arg))
		case "enc-plain-hook":
			// a Byzantine KDC with valid keys: the engine rewrites the plaintext before it is sealed
			if k.PlainHook != nil {
				plain = k.PlainHook(a.kind, plain)
			}
		case "enc-plain-prefix":
			if int(pt.Arg) < len(plain) {
				plain = plain[:pt.Arg]
			}
		case "enc-plain-subst":
			if pos := int(pt.Arg >> 8); pos < len(plain) {
				plain = append([]byte{}, plain...)
				plain[pos] = byte(pt.Arg)
			}
		case "padata-empty-info2":
			rep.PAData = []rk.PAData{{Type: rk.PAETypeInfo2, Value: rk.EncETypeInfo2(nil)}}
		case "padata-empty-info":
			rep.PAData = []rk.PAData{{Type: rk.PAETypeInfo, Value: rk.EncETypeInfo(nil)}}
		case "padata-garbage":
			rep.PAData = []rk.PAData{{Type: rk.PAETypeInfo2, Value: a.r.Bytes(9)}, {Type: rk.PAPWSalt, Value: nil}}
		}
	}
	enc, err := rk.Seal(replyKey, usage, plain, conf, int64(a.replyKvno), k.Policy.KvnoInReply && a.kind == "as")
	if err != nil {
		return k.errReply(rk.ErrGeneric, a.req, nil, err.Error())
	}
	for _, pt := range a.pt {
		switch pt.Kind {
		case "enc-flip":
			// Arg 0: a random byte; n > 0: byte n-1; n < 0: the n-th byte from the end (the integrity
			// checksum sits at the end: its last byte, and both sides of where a 96-, 128-, 160- or
			// 192-bit checksum starts)
			i := a.r.Intn(len(enc.Cipher))
			if pt.Arg > 0 && int(pt.Arg) <= len(enc.Cipher) {
				i = int(pt.Arg) - 1
			} else if pt.Arg < 0 && int(-pt.Arg) <= len(enc.Cipher) {
				i = len(enc.Cipher) + int(pt.Arg)
			}
			enc.Cipher[i] ^= 1 << uint(a.r.Intn(8))
		case "enc-trunc":
			n := 1 + a.r.Intn(len(enc.Cipher))
			if pt.Arg > 0 && int(pt.Arg) < len(enc.Cipher) {
				n = int(pt.Arg)
			}
			enc.Cipher = enc.Cipher[:len(enc.Cipher)-n]
		case "enc-extend":
			enc.Cipher = append(enc.Cipher, a.r.Bytes(1+a.r.Intn(16))...)
		}
	}
	rep.Enc = enc
	return rep.EncBytes()
}

func (k *KDC) handleTGS(req *rk.KDCReq, rec *ReqRecord, l *taskLog, pt []Perturb) ([]byte, int32) {
	now := k.now()
	bad := func(code int32, note string) ([]byte, int32) {
		if note != "" {
			rec.Notes = append(rec.Notes, note)
		}
		return k.errReply(code, req, nil, note), code
	}
	pa := rk.FindPA(req.PAData, rk.PATGSReq)
	if pa == nil {
		return bad(rk.ErrGeneric, "TGS-REQ without PA-TGS-REQ")
	}
	ap, err := rk.DecAPReq(pa.Value)
	if err != nil {
		return bad(rk.ErrGeneric, "PA-TGS-REQ AP-REQ undecodable: "+err.Error())
	}
	// recorded before any check can refuse the request: what was asked of which KDC
	rec.Renew = req.Options&rk.Bit(rk.FlagRenew) != 0
	rec.HdrRealm, rec.HdrSName = ap.Ticket.Realm, ap.Ticket.SName.String()
	// the ticket must be a TGT for this realm's TGS: krbtgt/<this realm>, issued by ap.Ticket.Realm;
	// only a renewal may present another ticket of this realm (RFC 4120 3.3.3.1)
	var tgtKey rk.EncryptionKey
	isTGT := len(ap.Ticket.SName.Names) == 2 && ap.Ticket.SName.Names[0] == "krbtgt" && ap.Ticket.SName.Names[1] == k.Realm
	switch {
	case !isTGT:
		if req.Options&rk.Bit(rk.FlagRenew) == 0 || ap.Ticket.Realm != k.Realm {
			return bad(rk.ErrGeneric, "ticket in PA-TGS-REQ is not a TGT for this realm: "+ap.Ticket.SName.String())
		}
		p := k.DB[ap.Ticket.SName.String()]
		if p == nil {
			return bad(rk.ErrSPrincipalUnknown, "ticket to renew is for an unknown principal")
		}
		kk, ok := p.KeyFor(k.Realm, int(ap.Ticket.Enc.Etype))
		if !ok {
			return bad(rk.ErrGeneric, "no key for etype of the ticket to renew")
		}
		tgtKey = kk.Key
	case ap.Ticket.Realm == k.Realm:
		p := k.DB["krbtgt/"+k.Realm]
		kk, ok := p.KeyFor(k.Realm, int(ap.Ticket.Enc.Etype))
		if !ok {
			return bad(rk.ErrGeneric, "no krbtgt key for etype")
		}
		tgtKey = kk.Key
	default:
		peer := k.Peers[ap.Ticket.Realm]
		if peer == nil {
			return bad(rk.ErrGeneric, "TGT from unknown realm "+ap.Ticket.Realm)
		}
		kk, ok := peer.DB["krbtgt/"+k.Realm].KeyFor(peer.Realm, int(ap.Ticket.Enc.Etype))
		if !ok {
			return bad(rk.ErrGeneric, "no cross-realm key for etype")
		}
		tgtKey = kk.Key
	}
	tp, err := rk.Open(ap.Ticket.Enc, tgtKey, rk.KUTicket)
	if err != nil {
		return bad(rk.ErrModified, "TGT does not decrypt: "+err.Error())
	}
	tgt, err := rk.DecEncTicketPart(tp)
	if err != nil {
		return bad(rk.ErrGeneric, "TGT enc-part undecodable: "+err.Error())
	}
	rec.TGTCipher, rec.TGTRealm = ap.Ticket.Enc.Cipher, ap.Ticket.Realm // resolved against the issue logs by the oracle
	ab, err := rk.Open(ap.Auth, tgt.Key, rk.KUTGSReqAuth)
	if err != nil {
		return bad(rk.ErrModified, "authenticator does not decrypt under the TGT session key with usage 7: "+err.Error())
	}
	au, err := rk.DecAuthenticator(ab)
	if err != nil {
		return bad(rk.ErrGeneric, "authenticator undecodable: "+err.Error())
	}
	if au.Cksum == nil {
		return bad(rk.ErrModified, "authenticator has no checksum over the request body")
	}
	if cet, ok := rcrypto.EtypeForChecksum(au.Cksum.Type); !ok || cet != int(tgt.Key.Etype) && !(cet == 17 || cet == 18) {
		rec.Notes = append(rec.Notes, fmt.Sprintf("checksum type %d does not belong to the session key's etype %d", au.Cksum.Type, tgt.Key.Etype))
	}
	if !rcrypto.VerifyChecksum(int(tgt.Key.Etype), tgt.Key.Value, rk.KUTGSReqAuthCksum, req.BodyRaw, au.Cksum.Sum) {
		return bad(rk.ErrModified, "checksum over KDC-REQ-BODY does not verify (usage 6)")
	}
	if !au.CName.Equal(tgt.CName) || au.CRealm != tgt.CRealm {
		if !k.Policy.LenientAuthCRealm || !au.CName.Equal(tgt.CName) {
			return bad(rk.ErrModified, "authenticator client does not match the TGT")
		}
		// a KDC that compares only the name (not conformant, but such KDCs exist): the mismatch is
		// still noted for the oracle
		rec.Notes = append(rec.Notes, "authenticator client does not match the TGT (realm; tolerated by this KDC)")
	}
	at := au.CTime.Add(time.Duration(au.Cusec) * time.Microsecond)
	if d := now.Sub(at); d > 5*time.Minute || d < -5*time.Minute {
		return bad(rk.ErrSkew, fmt.Sprintf("authenticator time off by %v", d))
	}
	if now.After(tgt.EndTime.Add(time.Duration(k.Policy.ExpiryGraceS) * time.Second)) {
		return bad(rk.ErrTktExpired, "TGT expired")
	}
	if req.Realm != k.Realm {
		return bad(rk.ErrWrongRealm, "request realm is not this realm")
	}
	if req.SName == nil {
		return bad(rk.ErrGeneric, "sname required")
	}
	renew := req.Options&rk.Bit(rk.FlagRenew) != 0
	rec.Renew = renew
	r := k.randFor(l, "tgs")
	set := 0
	for _, e := range req.Etypes {
		if k.supports(int(e)) {
			set = int(e)
			break
		}
	}
	if set == 0 {
		return bad(rk.ErrEtypeNoSupp, "")
	}
	replyKey, usage := tgt.Key, uint32(rk.KUTGSRepEncSession)
	if au.Subkey != nil {
		replyKey, usage = *au.Subkey, rk.KUTGSRepEncSubkey
	}
	base := issueArgs{req: req, rec: rec, l: l, r: r, pt: pt, cname: tgt.CName, crealm: tgt.CRealm,
		replyKey: replyKey, replyUsage: usage, msgType: rk.MsgTGSRep, encTag: 26}
	if renew {
		if tgt.Flags&rk.Bit(rk.FlagRenewable) == 0 || tgt.RenewTill == nil {
			return bad(rk.ErrBadOption, "ticket is not renewable")
		}
		if now.After(*tgt.RenewTill) {
			return bad(rk.ErrTktExpired, "renew-till passed")
		}
		if !req.SName.Equal(ap.Ticket.SName) {
			return bad(rk.ErrBadOption, "RENEW for another service than the ticket presented")
		}
		sp := k.DB[ap.Ticket.SName.String()]
		tkey, ok := k.pickTicketKey(sp)
		if !ok {
			return bad(rk.ErrEtypeNoSupp, "")
		}
		st := tgt.AuthTime
		if tgt.StartTime != nil {
			st = *tgt.StartTime
		}
		life := tgt.EndTime.Sub(st)
		start := now.Truncate(time.Second)
		end := start.Add(life)
		if end.After(*tgt.RenewTill) {
			end = *tgt.RenewTill
		}
		skb, _ := rcrypto.RandomToKey(int(tgt.Key.Etype), r.Bytes(rcrypto.SeedSize(int(tgt.Key.Etype))))
		base.kind, base.serial = "renew", fmt.Sprintf("%s/renew/t%d/%d", k.Realm, k.TaskID(), l.n)
		base.sname, base.tkey, base.sess = ap.Ticket.SName, tkey, rk.EncryptionKey{Etype: tgt.Key.Etype, Value: skb}
		base.flags, base.authtime, base.start, base.end, base.renewTill = tgt.Flags, tgt.AuthTime, start, end, tgt.RenewTill
		base.caddr = tgt.CAddr
		return k.issue(base), 0
	}
	skb, _ := rcrypto.RandomToKey(set, r.Bytes(rcrypto.SeedSize(set)))
	sess := rk.EncryptionKey{Etype: int32(set), Value: skb}
	start, end, renewTill := k.lifetimes(req, now, tgt.RenewTill)
	if end.After(tgt.EndTime) {
		end = tgt.EndTime
	}
	if renewTill != nil && !renewTill.After(end) {
		renewTill = nil
	}
	flags := uint32(0)
	if tgt.Flags&rk.Bit(rk.FlagPreAuthent) != 0 {
		flags |= rk.Bit(rk.FlagPreAuthent)
	}
	for _, f := range []int{rk.FlagForwardable, rk.FlagProxiable} {
		if req.Options&rk.Bit(f) != 0 && tgt.Flags&rk.Bit(f) != 0 {
			flags |= rk.Bit(f)
		}
	}
	if renewTill != nil {
		flags |= rk.Bit(rk.FlagRenewable)
	}
	var caddr []rk.HostAddress
	if k.Policy.CopyAddresses && req.Addresses != nil {
		caddr = req.Addresses
	}
	base.flags, base.authtime, base.start, base.end, base.renewTill, base.caddr, base.sess = flags, tgt.AuthTime, start, end, renewTill, caddr, sess
	sname := *req.SName
	// referral?
	target := ""
	if len(sname.Names) == 2 && sname.Names[0] == "krbtgt" && sname.Names[1] != k.Realm {
		target = sname.Names[1] // explicit request for a cross-realm TGT
	} else if rr, ok := k.Referral[sname.String()]; ok && rr != k.Realm {
		target = rr
	}
	if target != "" {
		hop := target
		if h, ok := k.NextHop[target]; ok {
			hop = h
		}
		xp := k.DB["krbtgt/"+hop]
		if xp == nil {
			return bad(rk.ErrSPrincipalUnknown, "no trust path towards "+target)
		}
		tkey, ok := k.pickTicketKey(xp)
		if !ok {
			return bad(rk.ErrEtypeNoSupp, "")
		}
		base.kind, base.serial = "referral", fmt.Sprintf("%s/referral/t%d/%d", k.Realm, k.TaskID(), l.n)
		base.sname, base.tkey = rk.PrincipalName{Type: 2, Names: []string{"krbtgt", hop}}, tkey
		base.transited = nil
		return k.issue(base), 0
	}
	sp := k.DB[sname.String()]
	if sp == nil {
		return bad(rk.ErrSPrincipalUnknown, "")
	}
	tkey, ok := k.pickTicketKey(sp)
	if !ok {
		return bad(rk.ErrEtypeNoSupp, "")
	}
	base.kind, base.serial = "tgs", fmt.Sprintf("%s/tgs/t%d/%d", k.Realm, k.TaskID(), l.n)
	base.sname, base.tkey = sname, tkey
	return k.issue(base), 0
}

// DirectAS issues a ticket the way an AS exchange by some other program (kinit) would have: the
// issue is logged like any other, no request record is kept, pre-authentication is not asked for.
// It is meant for building the world (a credential cache to start from), before tasks run.
func (k *KDC) DirectAS(client, sname string, etypes []int32, options uint32, life, renew time.Duration, addrs []rk.HostAddress) (*Issue, error) {
	cp := k.DB[client]
	if cp == nil {
		return nil, fmt.Errorf("no principal %s", client)
	}
	was := cp.NoPreauth
	cp.NoPreauth = true
	defer func() { cp.NoPreauth = was }()
	now := k.now()
	cn, sn := rk.ParseName(client), rk.ParseName(sname)
	sn.Type = 2
	req := &rk.KDCReq{MsgType: rk.MsgASReq, Options: options, CName: &cn, Realm: k.Realm, SName: &sn, Till: now.Add(life), Nonce: 424242, Etypes: etypes, Addresses: addrs}
	if renew > 0 {
		rt := now.Add(renew)
		req.RTime = &rt
		req.Options |= rk.Bit(rk.FlagRenewable)
	}
	l := k.log()
	before := len(l.issues)
	rec := &ReqRecord{At: k.Now().UTC(), Task: k.TaskID(), Realm: k.Realm, Req: req}
	if _, code := k.handleAS(req, rec, l, nil); code != 0 {
		return nil, fmt.Errorf("KDC refuses: error %d", code)
	}
	if len(l.issues) != before+1 {
		return nil, fmt.Errorf("nothing issued")
	}
	is := l.issues[len(l.issues)-1]
	return &is, nil
}
