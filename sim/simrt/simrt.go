// Package simrt is the in-process part of the simulator: the task registry, the seeded
// fake-time priority scheduler (every yield is a time.Sleep on the synctest bubble's clock, so
// the order in which tasks wake up is a pure function of the delays on the tape), per-task
// random streams behind crypto/rand.Reader, and the per-task event logs.
//
// There is deliberately no shared lock or channel between tasks in here: any such object would
// give every pair of tasks a happens-before edge and blind the race detector (DESIGN 2.2).
package simrt

import (
	crand "crypto/rand"
	"fmt"
	"os"
	"runtime"
	"sort"
	"strings"
	"sync"
	"sync/atomic"
	"time"

	"verifsim/core"
)

const (
	// SlotNs is the width of one scheduling slot.  Task i only ever wakes at instants that are
	// congruent to i modulo SlotNs, so no two tasks wake at the same fake instant.
	SlotNs   = 512 // divides one second, so whole-second library timers keep their owner's residue
	MaxTasks = 512
)

// Sched describes how a task chooses its yield delays.
type Sched struct {
	Seed   uint64 `json:"seed"`
	Mode   string `json:"mode"`             // min | fast | mixed | slow
	Delays []int  `json:"delays,omitempty"` // explicit prefix in slots; afterwards Mode applies
}

type Event struct {
	At   int64
	Task int
	Seq  int
	Text string
	Site bool // a scheduling-relevant site (goes into the interleaving hash)
	Wake bool
}

type Task struct {
	ID    int
	Name  string
	sched Sched
	srng  *core.Rng // delay stream
	rnd   *core.Rng // crypto/rand stream
	di    int

	mu     sync.Mutex // only ever contended by the collector at the end of the run
	log    []Event
	seq    int
	yields int64
	goid   uint64
	Done   chan struct{}
	Panic  interface{}
	Stack  string
}

type slot struct {
	goid uint64
	t    *Task
}

var (
	slots    [1 << 14]atomic.Pointer[slot]
	runSeed  uint64
	autoNext atomic.Int32
	autoMode = "fast"
	tasksMu  sync.Mutex // registration only (spawn time), never on the yield path
	tasks    []*Task
	epoch    time.Time
	// YieldLimit bounds the number of yields of one task; exceeding it means no progress.
	YieldLimit int64 = 2_000_000
	// OnAbort is called (on the aborting goroutine) when the run cannot continue.
	OnAbort func(kind, detail string)
	// Verbose controls whether non-site events are kept.
	quiet bool
)

// Init must be called once, inside the bubble, by the goroutine that becomes task 0.
func Init(seed uint64, autoSchedMode string) *Task {
	runSeed = seed
	epoch = time.Now()
	autoNext.Store(MaxTasks - 1)
	if autoSchedMode != "" {
		autoMode = autoSchedMode
	}
	crand.Reader = randReader{}
	t := newTask(0, "main", Sched{Seed: seed, Mode: "min"})
	bind(t)
	return t
}

func SetQuiet(q bool) { quiet = q }

func newTask(id int, name string, s Sched) *Task {
	if s.Mode == "" {
		s.Mode = "fast"
	}
	base := core.NewRng(runSeed ^ (uint64(id+1) * 0x9e3779b97f4a7c15))
	t := &Task{ID: id, Name: name, sched: s, Done: make(chan struct{})}
	t.srng = core.NewRng(s.Seed).Derive(fmt.Sprintf("sched/%d", id))
	t.rnd = base.Derive("rand")
	tasksMu.Lock()
	tasks = append(tasks, t)
	tasksMu.Unlock()
	return t
}

func goid() uint64 {
	var buf [64]byte
	n := runtime.Stack(buf[:], false)
	// "goroutine 123 ["
	var id uint64
	for i := 10; i < n; i++ {
		c := buf[i]
		if c < '0' || c > '9' {
			break
		}
		id = id*10 + uint64(c-'0')
	}
	return id
}

func bind(t *Task) {
	g := goid()
	t.goid = g
	slots[g%uint64(len(slots))].Store(&slot{goid: g, t: t})
}

// Cur returns the task of the calling goroutine; a goroutine the harness did not start (the
// library's own background goroutines) becomes a new task on first contact.
func Cur() *Task {
	g := goid()
	p := slots[g%uint64(len(slots))].Load()
	if p != nil && p.goid == g {
		return p.t
	}
	if p != nil && p.goid != g {
		// slot collision: fall back to a linear search (registration order is fixed).
		tasksMu.Lock()
		for _, t := range tasks {
			if t.goid == g {
				tasksMu.Unlock()
				return t
			}
		}
		tasksMu.Unlock()
	}
	id := int(autoNext.Add(-1)) + 1
	if id < 1 {
		abort("task-table-full", "too many library goroutines")
	}
	t := newTask(id, fmt.Sprintf("lib%d", id), Sched{Seed: runSeed, Mode: autoMode})
	bind(t)
	return t
}

// Spawn starts fn as task id (1..MaxTasks-1).  The new goroutine does nothing observable before
// its first wake-up in its own slot.
func Spawn(id int, name string, s Sched, fn func()) *Task {
	if id <= 0 || id >= MaxTasks {
		panic("simrt: bad task id")
	}
	t := newTask(id, name, s)
	go func() {
		bind(t)
		defer close(t.Done)
		defer func() {
			if r := recover(); r != nil {
				t.Panic = r
				t.Stack = string(stack())
				t.logf(false, "PANIC %v", r)
			}
		}()
		yield(t, "start", 1)
		fn()
	}()
	return t
}

func stack() []byte {
	buf := make([]byte, 16<<10)
	return buf[:runtime.Stack(buf, false)]
}

func (t *Task) nextDelay() int {
	if t.di < len(t.sched.Delays) {
		d := t.sched.Delays[t.di]
		t.di++
		if d < 1 {
			d = 1
		}
		if d > 1<<20 {
			d = 1 << 20
		}
		return d
	}
	t.di++
	switch t.sched.Mode {
	case "min":
		return 1
	case "slow":
		return 8 + t.srng.Intn(57)
	case "stall":
		// a task that is now and then descheduled for milliseconds at a lock boundary (what a loaded
		// machine does to a goroutine): windows between two lock acquisitions become wide
		if t.srng.Intn(8) == 0 {
			return 2000 + t.srng.Intn(18000)
		}
		return 1 + t.srng.Intn(8)
	case "mixed":
		if t.srng.Intn(16) == 0 {
			return 50 + t.srng.Intn(450)
		}
		return 1 + t.srng.Intn(8)
	default: // fast
		return 1 + t.srng.Intn(4)
	}
}

// NowNs is the fake clock in nanoseconds since the start of the run.
func NowNs() int64 { return int64(time.Since(epoch)) }

func yield(t *Task, site string, minSlots int) {
	t.yields++
	if t.yields > YieldLimit {
		abort("no-progress", fmt.Sprintf("task %d (%s) exceeded %d yields at %s", t.ID, t.Name, YieldLimit, site))
	}
	d := t.nextDelay()
	if d < minSlots {
		d = minSlots
	}
	now := time.Now().UnixNano()
	target := (now/SlotNs+int64(d))*SlotNs + int64(t.ID)
	time.Sleep(time.Duration(target - now))
	t.logEv(Event{Text: site, Site: true, Wake: true})
}

// Yield is a scheduling point of the calling task.
func Yield(site string) { yield(Cur(), site, 1) }

// SleepNs lets simulated time pass for the calling task (think time, latency); the wake-up is
// moved into the task's own slot.
func SleepNs(ns int64, site string) {
	t := Cur()
	if ns < 0 {
		ns = 0
	}
	now := time.Now().UnixNano()
	target := ((now+ns)/SlotNs+1)*SlotNs + int64(t.ID)
	time.Sleep(time.Duration(target - now))
	t.logEv(Event{Text: site, Site: true, Wake: true})
}

// SleepExact sleeps precisely ns nanoseconds (used by single-task engines that must put "now"
// exactly on a time bound; the caller accepts that the wake-up is outside its slot).
func SleepExact(ns int64) {
	if ns > 0 {
		time.Sleep(time.Duration(ns))
	}
}

func (t *Task) logEv(e Event) {
	e.At = time.Now().UnixNano()
	e.Task = t.ID
	t.mu.Lock()
	e.Seq = t.seq
	t.seq++
	if e.Site || !quiet {
		t.log = append(t.log, e)
	}
	t.mu.Unlock()
}

func (t *Task) logf(site bool, format string, a ...interface{}) {
	t.logEv(Event{Text: fmt.Sprintf(format, a...), Site: site})
}

// Logf records an event of the calling task.  It never draws from a stream or reads a real clock.
func Logf(format string, a ...interface{}) { Cur().logf(false, format, a...) }

// Sitef records a scheduling-relevant event (part of the interleaving hash).
func Sitef(format string, a ...interface{}) { Cur().logf(true, format, a...) }

// Rand returns the calling task's random stream (same one that serves crypto/rand).
func Rand() *core.Rng { return Cur().rnd }

type randReader struct{}

func (randReader) Read(p []byte) (int, error) {
	r := Cur().rnd
	for i := 0; i < len(p); i += 8 {
		v := r.U64()
		for j := 0; j < 8 && i+j < len(p); j++ {
			p[i+j] = byte(v >> (8 * uint(j)))
		}
	}
	return len(p), nil
}

// Wait blocks (durably) until the tasks have finished.
func Wait(ts ...*Task) {
	for _, t := range ts {
		<-t.Done
	}
}

// WaitTimeout waits for the tasks for at most d of simulated time; it reports the tasks still
// running.  The timer lives on the fake clock.
func WaitTimeout(d time.Duration, ts ...*Task) []*Task {
	deadline := time.NewTimer(d)
	defer deadline.Stop()
	var late []*Task
	expired := false
	for _, t := range ts {
		if expired {
			select {
			case <-t.Done:
			default:
				late = append(late, t)
			}
			continue
		}
		select {
		case <-t.Done:
		case <-deadline.C:
			expired = true
			select {
			case <-t.Done:
			default:
				late = append(late, t)
			}
		}
	}
	return late
}

// Collected is the merged view of a run.
type Collected struct {
	Events     []Event
	Trace      []string
	Interleave string
	TraceHash  string
	Ties       int
	SimNs      int64
	Switches   int // context switches between consecutive site events
	Overlap    bool
}

// Collect merges the per-task logs in (instant, task, seq) order.
func Collect() Collected {
	tasksMu.Lock()
	ts := append([]*Task(nil), tasks...)
	tasksMu.Unlock()
	var evs []Event
	for _, t := range ts {
		t.mu.Lock()
		evs = append(evs, t.log...)
		t.mu.Unlock()
	}
	sort.Slice(evs, func(i, j int) bool {
		a, b := evs[i], evs[j]
		if a.At != b.At {
			return a.At < b.At
		}
		if a.Task != b.Task {
			return a.Task < b.Task
		}
		return a.Seq < b.Seq
	})
	c := Collected{Events: evs, SimNs: NowNs()}
	base := epoch.UnixNano()
	var sites []string
	lastWakeAt, lastWakeTask := int64(-1), -1
	lastSiteTask := -1
	for _, e := range evs {
		c.Trace = append(c.Trace, fmt.Sprintf("%d T%d %s", e.At-base, e.Task, e.Text))
		if e.Site {
			sites = append(sites, fmt.Sprintf("%d:%s", e.Task, e.Text))
			if lastSiteTask >= 0 && e.Task != lastSiteTask {
				c.Switches++
			}
			lastSiteTask = e.Task
		}
		if e.Wake {
			if e.At == lastWakeAt && e.Task != lastWakeTask {
				c.Ties++
			}
			lastWakeAt, lastWakeTask = e.At, e.Task
		}
	}
	c.Interleave = core.HashStrings(sites)
	c.TraceHash = core.HashStrings(c.Trace)
	return c
}

func abort(kind, detail string) {
	if OnAbort != nil {
		OnAbort(kind, detail)
	}
	fmt.Fprintf(os.Stderr, "simrt abort: %s: %s\n", kind, detail)
	os.Exit(3)
}

// Abort ends the run from any goroutine.
func Abort(kind, detail string) { abort(kind, detail) }

// CallerSite returns "pkg.Func" of the gokrb5 (or other) function that called into a shim.
func CallerSite(skip int) string {
	pc, _, _, ok := runtime.Caller(skip)
	if !ok {
		return "?"
	}
	f := runtime.FuncForPC(pc)
	if f == nil {
		return "?"
	}
	n := f.Name()
	if i := strings.LastIndex(n, "/"); i >= 0 {
		n = n[i+1:]
	}
	return n
}
