package main

import (
	"encoding/json"
	"fmt"
	"os"
	"path/filepath"
	"sort"

	"verifsim/core"
)

type agg struct {
	runs          int
	evals         int64
	classes       map[string]struct{}
	interleavings map[string]struct{}
	lateNewClass  int // new classes contributed by the last tenth of the batch
	faults        map[string]int
	probes        map[string]int
	stats         map[string]int64
	simNs         int64
	ties          int
	faultFree     int
	samples       []json.RawMessage
	verdicts      map[string]int
	history       []int // number of classes after each run (for the saturation figure)
	regress       int
}

func newAgg(m core.Meta) *agg {
	return &agg{classes: map[string]struct{}{}, interleavings: map[string]struct{}{}, faults: map[string]int{},
		probes: map[string]int{}, stats: map[string]int64{}, verdicts: map[string]int{}}
}

func (a *agg) add(r *core.Result, raw string) {
	a.runs++
	ev := r.Evals
	if ev < 1 {
		ev = 1
	}
	a.evals += int64(ev)
	a.verdicts[r.Verdict]++
	if r.Nontrivial && r.Class != "" {
		a.classes[r.Class] = struct{}{}
	}
	if r.Interleave != "" {
		a.interleavings[r.Interleave] = struct{}{}
	}
	nf := 0
	for k, v := range r.Faults {
		a.faults[k] += v
		nf += v
	}
	if nf == 0 {
		a.faultFree++
	}
	for k, v := range r.Probes {
		a.probes[k] += v
	}
	for k, v := range r.Stats {
		a.stats[k] += v
	}
	for k, v := range r.Volatile {
		if v > a.stats["max:"+k] {
			a.stats["max:"+k] = v
		}
	}
	a.simNs += r.SimNs
	a.ties += r.Ties
	a.history = append(a.history, len(a.classes))
	if len(r.Tape) > 0 && len(a.samples) < 3 && r.Verdict != "violation" {
		s := map[string]interface{}{"case": r.Case, "verdict": r.Verdict, "class": r.Class, "tape": r.Tape, "probes": r.Probes, "faults": r.Faults}
		tr := r.Trace
		if len(tr) > 60 {
			tr = append(append([]string{}, tr[:40]...), fmt.Sprintf("... %d more events ...", len(tr)-40))
		}
		s["trace"] = tr
		a.samples = append(a.samples, core.MustJSON(s))
	}
}

func (a *agg) evidence(spec engSpec, meta core.Meta, tier string, seed uint64, wall, batchS float64, b *built,
	firstSeed, lastSeed uint64, sigs []*sigInfo, knownSeen map[string]int, zeroProbes []string, detSeeds, detProcs int, stopped bool, planned int) map[string]interface{} {
	newLate := 0
	if n := len(a.history); n >= 10 {
		newLate = a.history[n-1] - a.history[n-1-n/10]
	}
	viol := 0
	var vs []map[string]interface{}
	for _, s := range sigs {
		e := map[string]interface{}{"signature": s.Sig, "count": s.Count, "first_case": s.FirstCase}
		if s.Known != nil {
			e["known_finding"] = true
		} else {
			viol++
			e["replay"] = s.Replay
			e["confirmed"] = s.Confirmed
		}
		vs = append(vs, e)
	}
	distinct := len(a.classes)
	cov := map[string]interface{}{
		"evaluations":               int(a.evals),
		"distinct_nontrivial":       distinct,
		"rule":                      meta.Rule,
		"samples":                   a.samples,
		"simulated_runs":            a.runs,
		"planned_runs":              planned,
		"stopped_by_budget":         stopped,
		"runs_per_hour":             int(float64(a.runs) / batchS * 3600),
		"seeds":                     map[string]interface{}{"verif_seed": seed, "first_run_seed": firstSeed, "last_run_seed": lastSeed},
		"simulated_time_total_s":    float64(a.simNs) / 1e9,
		"faults_fired":              a.faults,
		"fault_free_runs":           a.faultFree,
		"reach_probes":              a.probes,
		"workload_probes_required":  meta.WorkloadProbes,
		"workload_probes_never_hit": zeroProbes,
		"distinct_interleavings":    len(a.interleavings),
		"new_classes_in_last_tenth": newLate,
		"stats":                     a.stats,
		"wakeup_ties":               a.ties,
		"verdicts":                  a.verdicts,
		"violation_signatures":      vs,
		"known_findings_seen":       knownSeen,
		"components":                meta.Components,
		"instrumented_by_overlay":   b.Overlay,
		"determinism_slice":         fmt.Sprintf("%d cases x %d processes at GOMAXPROCS 1/4/16: identical result lines (incl. full event trace)", detSeeds, detProcs),
		"build_s":                   b.BuildS,
		"exhaustive":                meta.Exhaustive && tier == "thorough" && !stopped,
		"sweep_cases":               map[string]int{"quick": meta.SweepQuick, "thorough": meta.SweepThorough},
		"race_detector":             spec.Race || spec.RaceShare > 0,
		"race_detector_share":       raceShareText(spec),
		"regression_tapes_replayed": a.regress,
	}
	return map[string]interface{}{
		"property_id": spec.Prop, "tier": tier, "seed": int64(seed), "level": meta.Level,
		"coverage": cov, "assumptions": meta.Assumptions, "wall_s": wall, "violations": viol,
	}
}

func writeEvidence(prop string, ev map[string]interface{}) error {
	dir := filepath.Join(verifDir(), "evidence")
	if err := os.MkdirAll(dir, 0o755); err != nil {
		return err
	}
	b, err := json.MarshalIndent(ev, "", " ")
	if err != nil {
		return err
	}
	return os.WriteFile(filepath.Join(dir, prop+".json"), append(b, '\n'), 0o644)
}

func sortedStrings(m map[string]int) []string {
	var ks []string
	for k := range m {
		ks = append(ks, k)
	}
	sort.Strings(ks)
	return ks
}

func raceShareText(spec engSpec) string {
	switch {
	case spec.Race:
		return "every run"
	case spec.RaceShare > 0:
		return fmt.Sprintf("one in %d seeded runs (same tapes, race-detector build of the engine); stats.runs_under_race_detector counts them", spec.RaceShare)
	}
	return "none"
}
