package main

import (
	"bytes"
	"encoding/json"
	"time"
)

// Generic tape minimisation: delta debugging over the JSON tree of the tape.  Candidates: drop
// an array element (a task, an operation, a fault, a delay), flatten a "sched" object to the
// minimum-delay mode (which removes context switches), shrink numbers towards zero.  A candidate
// is kept only if the child reproduces the *same violation signature* from it.

func decodeTape(b []byte) (interface{}, error) {
	d := json.NewDecoder(bytes.NewReader(b))
	d.UseNumber()
	var v interface{}
	err := d.Decode(&v)
	return v, err
}

func clone(v interface{}) interface{} {
	switch x := v.(type) {
	case map[string]interface{}:
		m := make(map[string]interface{}, len(x))
		for k, e := range x {
			m[k] = clone(e)
		}
		return m
	case []interface{}:
		a := make([]interface{}, len(x))
		for i, e := range x {
			a[i] = clone(e)
		}
		return a
	default:
		return v
	}
}

type edit func(root interface{}) (interface{}, bool)

// enumerate candidate edits of the tree (each edit works on a fresh clone)
func candidates(root interface{}) []edit {
	var eds []edit
	var walk func(v interface{}, path []interface{}, key string)
	walk = func(v interface{}, path []interface{}, key string) {
		p := append([]interface{}{}, path...)
		switch x := v.(type) {
		case map[string]interface{}:
			if key == "sched" {
				if m, _ := x["mode"].(string); m != "min" || x["delays"] != nil {
					eds = append(eds, func(r interface{}) (interface{}, bool) {
						return setAt(r, p, map[string]interface{}{"seed": json.Number("0"), "mode": "min"}), true
					})
				}
			}
			for _, k := range sortedKeys(x) {
				walk(x[k], append(p, k), k)
			}
		case []interface{}:
			for i := len(x) - 1; i >= 0; i-- {
				i := i
				eds = append(eds, func(r interface{}) (interface{}, bool) { return removeAt(r, p, i), true })
			}
			for i, e := range x {
				walk(e, append(p, i), key)
			}
		case json.Number:
			if key == "run_seed" || key == "id" || key == "seed" {
				return
			}
			if n, err := x.Int64(); err == nil && n != 0 {
				eds = append(eds, func(r interface{}) (interface{}, bool) { return setAt(r, p, json.Number("0")), true })
				if n > 1 || n < -1 {
					h := n / 2
					eds = append(eds, func(r interface{}) (interface{}, bool) {
						return setAt(r, p, json.Number(itoa(h))), true
					})
				}
			}
		case bool:
			if x {
				eds = append(eds, func(r interface{}) (interface{}, bool) { return setAt(r, p, false), true })
			}
		}
	}
	walk(root, nil, "")
	return eds
}

func itoa(n int64) string {
	b, _ := json.Marshal(n)
	return string(b)
}

func sortedKeys(m map[string]interface{}) []string {
	ks := make([]string, 0, len(m))
	for k := range m {
		ks = append(ks, k)
	}
	for i := 1; i < len(ks); i++ {
		for j := i; j > 0 && ks[j] < ks[j-1]; j-- {
			ks[j], ks[j-1] = ks[j-1], ks[j]
		}
	}
	return ks
}

func getAt(root interface{}, path []interface{}) interface{} {
	v := root
	for _, p := range path {
		switch k := p.(type) {
		case string:
			v = v.(map[string]interface{})[k]
		case int:
			v = v.([]interface{})[k]
		}
	}
	return v
}

func setAt(root interface{}, path []interface{}, val interface{}) interface{} {
	r := clone(root)
	if len(path) == 0 {
		return val
	}
	parent := getAt(r, path[:len(path)-1])
	switch k := path[len(path)-1].(type) {
	case string:
		parent.(map[string]interface{})[k] = val
	case int:
		parent.([]interface{})[k] = val
	}
	return r
}

func removeAt(root interface{}, path []interface{}, idx int) interface{} {
	r := clone(root)
	arr := getAt(r, path).([]interface{})
	na := append(append([]interface{}{}, arr[:idx]...), arr[idx+1:]...)
	if len(path) == 0 {
		return na
	}
	parent := getAt(r, path[:len(path)-1])
	switch k := path[len(path)-1].(type) {
	case string:
		parent.(map[string]interface{})[k] = na
	case int:
		parent.([]interface{})[k] = na
	}
	return r
}

// minimise returns the smallest tape found within the budget that still shows sig.
func minimise(b *built, spec engSpec, tape []byte, sig string, budget time.Duration, race bool, childTimeout time.Duration) ([]byte, int) {
	root, err := decodeTape(tape)
	if err != nil {
		return tape, 0
	}
	deadline := time.Now().Add(budget)
	tries := 0
	for pass := 0; pass < 6 && time.Now().Before(deadline); pass++ {
		progress := false
		for {
			eds := candidates(root)
			applied := false
			for _, e := range eds {
				if time.Now().After(deadline) {
					break
				}
				cand, _ := e(root)
				cb, err := json.Marshal(cand)
				if err != nil || bytes.Equal(cb, mustMarshal(root)) {
					continue
				}
				tries++
				o := runTape(b, spec, cb, "", childTimeout, race)
				if !(o.Res != nil && hasSig(o.Res, sig)) && len(sig) > 5 && sig[:5] == "race|" {
					o = runTape(b, spec, cb, "", childTimeout, race)
				}
				if o.Res != nil && o.Res.Verdict == "violation" && hasSig(o.Res, sig) {
					root = cand
					applied, progress = true, true
					break // re-enumerate on the smaller tree
				}
			}
			if !applied || time.Now().After(deadline) {
				break
			}
		}
		if !progress {
			break
		}
	}
	return mustMarshal(root), tries
}

func mustMarshal(v interface{}) []byte {
	b, _ := json.Marshal(v)
	return b
}
