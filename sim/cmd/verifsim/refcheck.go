package main

import "fmt"

// refSelfTests is filled by refcheck_ref.go once the reference implementation is linked in.
var refSelfTests []func() []string

func cmdRefcheck() int {
	bad := 0
	for _, f := range refSelfTests {
		for _, e := range f() {
			fmt.Println("REFCHECK-FAIL", e)
			bad++
		}
	}
	if bad > 0 {
		return 2
	}
	return 0
}
