package main

import (
	"encoding/json"
	"fmt"
	"go/parser"
	"go/token"
	"os"
	"os/exec"
	"path/filepath"
	"strings"
	"time"
)

// engines known to the orchestrator: property id -> engine directory under sim/engines.
type engSpec struct {
	Prop   string
	Engine string
	Race   bool
	// RaceShare n > 0: one in n seeded runs of the batch is executed by the race-detector build of
	// the engine (same tape, same schedule); for properties whose statement speaks of concurrent
	// callers but whose history oracles do not need the detector on every run
	RaceShare int
}

var registry = []engSpec{
	{"C01", "c01", false, 0},
	{"C02", "c02", false, 10},
	{"C03", "c03", false, 0},
	{"C04", "c04", false, 0},
	{"C09", "c09", false, 0},
	{"C10", "c10", false, 0},
	{"C11", "c11", true, 0},
	{"C12", "c12", false, 0},
	{"C18", "c18", false, 0},
	{"C20", "c20", false, 0},
}

func specFor(id string) (engSpec, bool) {
	for _, s := range registry {
		if strings.EqualFold(s.Prop, id) || s.Engine == strings.ToLower(id) {
			return s, true
		}
	}
	return engSpec{}, false
}

// which imports are rewritten in which package directories of /repo/v8 (DESIGN 2.3)
var overlayRules = []struct{ dir, imp, shim string }{
	{"service", "sync", "verifsim/shim/simsync"},
	{"client", "sync", "verifsim/shim/simsync"},
	{"client", "net", "verifsim/shim/simnet"},
	{"spnego", "net", "verifsim/shim/simnet"},
}

// files that must be instrumented; if one of them no longer imports the package the harness
// cannot claim to control that seam and stops with exit 2.
var overlayRequired = map[string]string{
	"service/cache.go":  "sync",
	"client/session.go": "sync",
	"client/cache.go":   "sync",
	"client/network.go": "net",
	"spnego/http.go":    "net",
}

func repoDir() string {
	if d := os.Getenv("VERIF_REPO"); d != "" {
		return d
	}
	return "/repo"
}

func simDir() string {
	if d := os.Getenv("VERIF_SIM"); d != "" {
		return d
	}
	exe, err := os.Executable()
	if err == nil {
		// <verif>/bin/verifsim -> <verif>/sim
		d := filepath.Join(filepath.Dir(filepath.Dir(exe)), "sim")
		if _, err := os.Stat(filepath.Join(d, "go.mod")); err == nil {
			return d
		}
	}
	return "/verif/sim"
}

func verifDir() string { return filepath.Dir(simDir()) }

// genOverlay writes rewritten copies of the instrumented files into dir and returns the path of
// overlay.json.  The copies differ from the working-tree files in exactly one import spec each.
func genOverlay(dir string) (string, []string, error) {
	v8 := filepath.Join(repoDir(), "v8")
	repl := map[string]string{}
	var done []string
	seen := map[string]bool{}
	for _, rule := range overlayRules {
		files, err := filepath.Glob(filepath.Join(v8, rule.dir, "*.go"))
		if err != nil {
			return "", nil, err
		}
		for _, f := range files {
			if strings.HasSuffix(f, "_test.go") {
				continue
			}
			src := f
			if p, ok := repl[f]; ok {
				src = p // second rule on the same file
			}
			b, err := os.ReadFile(src)
			if err != nil {
				return "", nil, err
			}
			fset := token.NewFileSet()
			pf, err := parser.ParseFile(fset, f, b, parser.ImportsOnly)
			if err != nil {
				return "", nil, fmt.Errorf("parse %s: %v", f, err)
			}
			for _, is := range pf.Imports {
				if is.Path.Value != `"`+rule.imp+`"` {
					continue
				}
				if is.Name != nil {
					return "", nil, fmt.Errorf("%s imports %s under a name; cannot instrument", f, rule.imp)
				}
				off := fset.Position(is.Path.Pos()).Offset
				end := fset.Position(is.Path.End()).Offset
				nb := append([]byte{}, b[:off]...)
				nb = append(nb, []byte(rule.imp+` "`+rule.shim+`"`)...)
				nb = append(nb, b[end:]...)
				out := filepath.Join(dir, strings.ReplaceAll(strings.TrimPrefix(f, v8+"/"), "/", "__"))
				if err := os.WriteFile(out, nb, 0o644); err != nil {
					return "", nil, err
				}
				repl[f] = out
				rel := strings.TrimPrefix(f, v8+"/")
				seen[rel+":"+rule.imp] = true
				done = append(done, rel+":"+rule.imp)
			}
		}
	}
	for f, imp := range overlayRequired {
		if !seen[f+":"+imp] {
			return "", nil, fmt.Errorf("%s no longer imports %q: harness cannot instrument it", f, imp)
		}
	}
	ov := filepath.Join(dir, "overlay.json")
	b, _ := json.Marshal(map[string]interface{}{"Replace": repl})
	if err := os.WriteFile(ov, b, 0o644); err != nil {
		return "", nil, err
	}
	return ov, done, nil
}

func goEnv() []string {
	env := os.Environ()
	env = append(env, "GOFLAGS=-mod=mod", "GOPROXY=off", "GOSUMDB=off", "GOTOOLCHAIN=local", "CGO_ENABLED=1")
	return env
}

func goBin() string {
	if p, err := exec.LookPath("go1.26.8"); err == nil {
		return p
	}
	return "/opt/veriftools/go1.26.8/bin/go"
}

type built struct {
	Dir     string
	Bin     string
	RaceBin string
	Overlay []string
	BuildS  float64
}

// buildEngine compiles the engine's test binary against /repo's current working tree.
func buildEngine(spec engSpec, wantRace bool) (*built, error) {
	t0 := time.Now()
	dir, err := os.MkdirTemp("", "verifsim-"+spec.Engine+"-")
	if err != nil {
		return nil, err
	}
	ov, files, err := genOverlay(dir)
	if err != nil {
		os.RemoveAll(dir)
		return nil, err
	}
	// go.sum of the harness module must contain the repo's entries
	b := &built{Dir: dir, Overlay: files}
	// VERIF_REPO=<dir> (development aid: a scratch copy or worktree of the repository) needs the
	// module replacement to point there too: a copy of go.mod with that one line changed
	modfile := ""
	if repoDir() != "/repo" {
		gm, err := os.ReadFile(filepath.Join(simDir(), "go.mod"))
		if err != nil {
			os.RemoveAll(dir)
			return nil, err
		}
		gm = []byte(strings.Replace(string(gm), "=> /repo/v8", "=> "+filepath.Join(repoDir(), "v8"), 1))
		modfile = filepath.Join(dir, "go.mod")
		if err := os.WriteFile(modfile, gm, 0o644); err != nil {
			os.RemoveAll(dir)
			return nil, err
		}
		if gs, err := os.ReadFile(filepath.Join(simDir(), "go.sum")); err == nil {
			os.WriteFile(filepath.Join(dir, "go.sum"), gs, 0o644)
		}
	}
	build := func(race bool) (string, error) {
		out := filepath.Join(dir, spec.Engine+".test")
		args := []string{"test", "-c", "-vet=off", "-overlay", ov, "-o", out}
		if race {
			out = filepath.Join(dir, spec.Engine+".race.test")
			args = []string{"test", "-c", "-vet=off", "-race", "-overlay", ov, "-o", out}
		}
		if modfile != "" {
			args = append(args, "-modfile="+modfile)
		}
		args = append(args, "./engines/"+spec.Engine)
		cmd := exec.Command(goBin(), args...)
		cmd.Dir = simDir()
		cmd.Env = goEnv()
		o, err := cmd.CombinedOutput()
		if err != nil {
			return "", fmt.Errorf("build %s: %v\n%s", spec.Engine, err, o)
		}
		return out, nil
	}
	if b.Bin, err = build(false); err != nil {
		os.RemoveAll(dir)
		return nil, err
	}
	if wantRace {
		if b.RaceBin, err = build(true); err != nil {
			os.RemoveAll(dir)
			return nil, err
		}
	}
	b.BuildS = time.Since(t0).Seconds()
	return b, nil
}

func (b *built) cleanup() {
	if b != nil && b.Dir != "" && os.Getenv("VERIF_KEEP") == "" {
		os.RemoveAll(b.Dir)
	}
}
