// verifsim is the orchestrator (DESIGN 2.1, 2.6, 6): it builds an engine's test binary against
// /repo's working tree through the overlay, derives run seeds from VERIF_SEED, runs one OS
// process per simulated run on all cores, triages and minimises violations, writes replay files
// and the evidence file, and exits 0 / 1 / 2.
package main

import (
	"bufio"
	"encoding/json"
	"fmt"
	"os"
	"path/filepath"
	"regexp"
	"runtime"
	"sort"
	"strconv"
	"strings"
	"sync"
	"time"

	"verifsim/core"
)

func usage() {
	fmt.Fprintln(os.Stderr, `usage:
  verifsim check <property> [--tier quick|thorough]
  verifsim replay <replay-file>
  verifsim run <property> <case|tape-file> [--race]     (development: print one result with trace)
  verifsim selftest <property> [--seeds n] [--procs n]  (determinism: same tape, many processes)
  verifsim refcheck                                     (reference implementation self-test)`)
	os.Exit(2)
}

func main() {
	if len(os.Args) < 2 {
		usage()
	}
	switch os.Args[1] {
	case "check":
		os.Exit(cmdCheck(os.Args[2:]))
	case "replay":
		os.Exit(cmdReplay(os.Args[2:]))
	case "run":
		os.Exit(cmdRun(os.Args[2:]))
	case "selftest":
		os.Exit(cmdSelftest(os.Args[2:]))
	case "refcheck":
		os.Exit(cmdRefcheck())
	default:
		usage()
	}
}

func harnessErr(format string, a ...interface{}) int {
	fmt.Printf("HARNESS-ERROR "+format+"\n", a...)
	return 2
}

func flagVal(args []string, name, def string) string {
	for i, a := range args {
		if a == name && i+1 < len(args) {
			return args[i+1]
		}
		if strings.HasPrefix(a, name+"=") {
			return a[len(name)+1:]
		}
	}
	return def
}

func hasFlag(args []string, name string) bool {
	for _, a := range args {
		if a == name {
			return true
		}
	}
	return false
}

func envInt(name string, def int64) int64 {
	if v := os.Getenv(name); v != "" {
		if n, err := strconv.ParseInt(v, 10, 64); err == nil {
			return n
		}
	}
	return def
}

type finding struct {
	Status    string `json:"status"` // known | fixed
	Property  string `json:"property"`
	Signature string `json:"signature"` // exact, or prefix when it ends in '*'
	What      string `json:"what"`
	Commit    string `json:"commit,omitempty"`
}

func loadFindings() ([]finding, error) {
	f, err := os.Open(filepath.Join(verifDir(), "known_findings.jsonl"))
	if err != nil {
		if os.IsNotExist(err) {
			return nil, nil
		}
		return nil, err
	}
	defer f.Close()
	var out []finding
	sc := bufio.NewScanner(f)
	sc.Buffer(make([]byte, 1<<20), 1<<20)
	for sc.Scan() {
		ln := strings.TrimSpace(sc.Text())
		if ln == "" || strings.HasPrefix(ln, "#") {
			continue
		}
		var x finding
		if err := json.Unmarshal([]byte(ln), &x); err != nil {
			return nil, fmt.Errorf("known_findings.jsonl: %v", err)
		}
		out = append(out, x)
	}
	return out, nil
}

// matchForeignKnown looks a crash signature up among the known findings of the other properties.
func matchForeignKnown(fs []finding, own, sig string) *finding {
	seen := map[string]bool{}
	for _, f := range fs {
		if f.Status == "known" && f.Property != own && !seen[f.Property] {
			seen[f.Property] = true
			if m := matchKnown(fs, f.Property, sig); m != nil {
				return m
			}
		}
	}
	return nil
}

func matchKnown(fs []finding, prop, sig string) *finding {
	for i := range fs {
		f := &fs[i]
		if f.Status != "known" || f.Property != prop {
			continue
		}
		if f.Signature == sig || (strings.HasSuffix(f.Signature, "*") && strings.HasPrefix(sig, strings.TrimSuffix(f.Signature, "*"))) {
			return f
		}
		if strings.HasPrefix(f.Signature, "re:") {
			if re, err := regexp.Compile(f.Signature[3:]); err == nil && re.MatchString(sig) {
				return f
			}
		}
	}
	return nil
}

type sigInfo struct {
	Sig       string
	Count     int
	FirstCase string
	Tape      []byte
	Detail    json.RawMessage
	Known     *finding
	Replay    string
	Confirmed bool
	MinTries  int
}

func cmdCheck(args []string) int {
	if len(args) < 1 {
		usage()
	}
	spec, ok := specFor(args[0])
	if !ok {
		return harnessErr("unknown property %s", args[0])
	}
	tier := flagVal(args, "--tier", os.Getenv("VERIF_TIER"))
	if tier != "thorough" {
		tier = "quick"
	}
	seed := uint64(envInt("VERIF_SEED", 20260925))
	t0 := time.Now()
	if rc := cmdRefcheck(); rc != 0 {
		return harnessErr("reference self-test failed")
	}
	findings, err := loadFindings()
	if err != nil {
		return harnessErr("%v", err)
	}
	b, err := buildEngine(spec, spec.Race || spec.RaceShare > 0)
	if err != nil {
		return harnessErr("%v", err)
	}
	defer b.cleanup()
	meta, err := getMeta(b.Bin)
	if err != nil {
		return harnessErr("meta: %v", err)
	}
	nSweep, nSeeded := meta.SweepQuick, meta.SeededQuick
	budget := time.Duration(envInt("VERIF_BUDGET_S", 100)) * time.Second
	if tier == "thorough" {
		nSweep, nSeeded = meta.SweepThorough, meta.SeededThorough
		budget = time.Duration(envInt("VERIF_BUDGET_S", 1500)) * time.Second
	}
	if n := envInt("VERIF_RUNS", -1); n >= 0 {
		nSeeded = int(n)
	}
	// VERIF_CASES=sweep:12,seed:99 runs exactly these cases (debugging aid; the tier still decides
	// how a sweep index is read)
	var onlyCases []string
	if v := os.Getenv("VERIF_CASES"); v != "" {
		onlyCases = strings.Split(v, ",")
		nSweep, nSeeded = len(onlyCases), 0
	}
	childTimeout := time.Duration(meta.ChildTimeoutS) * time.Second
	if ms := envInt("VERIF_CHILD_TIMEOUT_MS", 0); ms > 0 {
		childTimeout = time.Duration(ms) * time.Millisecond // for testing the time-out path of the orchestrator
	}
	if childTimeout == 0 {
		childTimeout = 120 * time.Second
	}
	bin := b.Bin
	if spec.Race {
		bin = b.RaceBin
	}

	// determinism slice: a few cases, several processes each at different GOMAXPROCS
	detSeeds, detProcs := 3, 4
	if tier == "thorough" {
		detSeeds, detProcs = 5, 6
	}
	seedRng := core.NewRng(seed).Derive("runs/" + spec.Engine)
	sweepOnly := 0
	if nSeeded == 0 && meta.SeededQuick == 0 {
		sweepOnly = nSweep
	}
	detBad := determinismSlice(bin, tier, seedRng.Derive("det"), detSeeds, detProcs, childTimeout, sweepOnly)
	// a failed determinism slice does not end the check at once: when the code under test itself
	// is nondeterministic (a data race on shared state) the batch is what will show it; the failure
	// becomes a harness error at the end only if nothing was found

	// the batch
	type job struct {
		idx  int
		kase string
	}
	total := nSweep + nSeeded
	jobs := make(chan job, 256)
	results := make(chan childOut, 256)
	workers := runtime.NumCPU()
	if w := envInt("VERIF_WORKERS", 0); w > 0 {
		workers = int(w)
	}
	stop := make(chan struct{})
	var wg sync.WaitGroup
	var deferredMu sync.Mutex
	var deferred []job
	var foreignMu sync.Mutex
	foreignSeen := map[string]int{}
	for w := 0; w < workers; w++ {
		wg.Add(1)
		go func() {
			defer wg.Done()
			for j := range jobs {
				emit := ""
				bin := bin
				shared := spec.RaceShare > 0 && j.idx >= nSweep && j.idx%spec.RaceShare == 0 && len(onlyCases) == 0
				if shared {
					bin = b.RaceBin // this run is executed by the race-detector build
				}
				if j.idx < 3 {
					emit = "tape,trace"
				} else if spec.Race || shared {
					emit = "tape" // race reports are attached by the orchestrator, which needs the tape
				}
				o := runChild(childOpts{Bin: bin, Mode: "run", Case: j.kase, Tier: tier, Emit: emit, Timeout: childTimeout})
				if shared && o.Res != nil {
					if o.Res.Stats == nil {
						o.Res.Stats = map[string]int64{}
					}
					o.Res.Stats["runs_under_race_detector"] = 1
				}
				if o.Res == nil && !o.TimedOut {
					// one retry distinguishes a flaky start from a real crash
					o2 := runChild(childOpts{Bin: bin, Mode: "run", Case: j.kase, Tier: tier, Emit: emit, Timeout: childTimeout})
					if o2.Res != nil {
						o2.Err = "first attempt produced no result: " + tail(o.Stderr, 500)
						o = o2
						if o.Res.Stats == nil {
							o.Res.Stats = map[string]int64{}
						}
						o.Res.Stats["retried"] = 1
					}
				}
				if o.Res == nil && o.TimedOut {
					// no answer within the wall-clock budget while all workers were busy: whether
					// the machine was overloaded or the case really does not end is decided by
					// running it again alone, with four times the budget, once the batch is through
					deferredMu.Lock()
					deferred = append(deferred, j)
					deferredMu.Unlock()
					continue
				}
				if o.Res == nil && !o.TimedOut {
					// the child died of a fatal runtime error.  When the frame it died in is a known
					// finding of ANOTHER property (the unbounded allocations of the NDR decoder, which
					// C04 owns, also kill runs of other engines that deliver a damaged PAC), the run
					// is counted under that finding instead of being reported as a harness error here
					sig := genericCrashSignature(spec.Engine, o.Stderr)
					if f := matchForeignKnown(findings, spec.Prop, sig); f != nil {
						o.Res = &core.Result{Engine: spec.Engine, Case: j.kase, Verdict: "ok", Evals: 1, Class: "died-of-known-finding-of-" + f.Property,
							Stats: map[string]int64{"runs_killed_by_known_finding_of_" + f.Property: 1}, Faults: map[string]int{}, Probes: map[string]int{}}
						foreignMu.Lock()
						foreignSeen[f.Property+"|"+f.Signature]++
						foreignMu.Unlock()
					}
				}
				if o.Res != nil && o.Res.Case == "" {
					o.Res.Case = j.kase
				}
				if o.Res == nil {
					o.Err = fmt.Sprintf("case %s: no result (exit %d timeout=%v) %s %s", j.kase, o.ExitCode, o.TimedOut, o.Err, tail(o.Stderr, 1500))
				}
				results <- o
				// a delivery that killed the child must not hide the rest of its batch: continue after it
				for n := 0; o.Resume != nil && n < 200; n++ {
					o = runTape(b, spec, o.Resume, "", childTimeout, spec.Race)
					if o.Res == nil {
						break
					}
					o.Res.Case = fmt.Sprintf("%s+resume%d", j.kase, n+1)
					results <- o
				}
			}
		}()
	}
	firstSeed, lastSeed := uint64(0), uint64(0)
	go func() {
		defer close(jobs)
		for i := 0; i < total; i++ {
			var k string
			if i < len(onlyCases) {
				k = onlyCases[i]
			} else if i < nSweep {
				k = fmt.Sprintf("sweep:%d", i)
			} else {
				s := seedRng.U64() >> 1
				if firstSeed == 0 {
					firstSeed = s
				}
				lastSeed = s
				k = fmt.Sprintf("seed:%d", s)
			}
			select {
			case jobs <- job{i, k}:
			case <-stop:
				return
			}
		}
	}()
	go func() {
		wg.Wait()
		for _, j := range deferred {
			o := runChild(childOpts{Bin: bin, Mode: "run", Case: j.kase, Tier: tier, Emit: "tape", Timeout: 4 * childTimeout})
			if o.Res != nil {
				if o.Res.Case == "" {
					o.Res.Case = j.kase
				}
				if o.Res.Stats == nil {
					o.Res.Stats = map[string]int64{}
				}
				o.Res.Stats["rerun_alone_after_timeout"] = 1
			} else {
				o.Err = fmt.Sprintf("case %s: no result, also when run alone with four times the time budget (exit %d timeout=%v) %s %s", j.kase, o.ExitCode, o.TimedOut, o.Err, tail(o.Stderr, 1500))
			}
			results <- o
		}
		close(results)
	}()

	agg := newAgg(meta)
	sigs := map[string]*sigInfo{}
	var harness []string
	// regression tapes: minimised schedules of defects found (and repaired) earlier are replayed
	// in every check, judged like any other run, so that a returning defect is caught at once
	regFiles, _ := filepath.Glob(filepath.Join(verifDir(), "regress", spec.Prop, "*.json"))
	if os.Getenv("VERIF_NO_REGRESS") != "" {
		regFiles = nil // evaluation of the seeded search on its own (tools/seedcheck.sh)
	}
	sort.Strings(regFiles)
	for _, rf := range regFiles {
		rb, err := os.ReadFile(rf)
		if err != nil {
			harness = append(harness, err.Error())
			continue
		}
		var x struct {
			Tape json.RawMessage `json:"tape"`
		}
		if err := json.Unmarshal(rb, &x); err != nil || len(x.Tape) == 0 {
			harness = append(harness, "bad regression tape "+rf)
			continue
		}
		o := runTape(b, spec, x.Tape, "tape", childTimeout, spec.Race)
		if o.Res == nil {
			harness = append(harness, fmt.Sprintf("regression tape %s: no result %s %s", rf, o.Err, tail(o.Stderr, 500)))
			continue
		}
		o.Res.Case = "regress:" + filepath.Base(rf)
		agg.add(o.Res, o.Raw)
		agg.regress++
		switch o.Res.Verdict {
		case "ok":
		case "violation":
			for _, v := range o.Res.Violations {
				si := sigs[v.Signature]
				if si == nil {
					si = &sigInfo{Sig: v.Signature, FirstCase: o.Res.Case, Tape: x.Tape, Detail: v.Detail}
					sigs[v.Signature] = si
				}
				si.Count++
			}
		default:
			harness = append(harness, fmt.Sprintf("regression tape %s: %s: %s", rf, o.Res.Verdict, o.Res.Harness))
		}
	}
	stopped := false
	deadline := t0.Add(budget)
	for o := range results {
		if o.Res == nil {
			harness = append(harness, o.Err)
			continue
		}
		r := o.Res
		agg.add(r, o.Raw)
		switch r.Verdict {
		case "ok":
		case "violation":
			for _, v := range r.Violations {
				si := sigs[v.Signature]
				if si == nil {
					si = &sigInfo{Sig: v.Signature, FirstCase: r.Case, Tape: r.Tape, Detail: v.Detail}
					var dd struct {
						Repro json.RawMessage `json:"repro_tape"`
					}
					if json.Unmarshal(v.Detail, &dd) == nil && len(dd.Repro) > 2 {
						si.Tape = dd.Repro // the engine narrowed the batch down to the one failing delivery
					}
					sigs[v.Signature] = si
				}
				si.Count++
			}
		default:
			harness = append(harness, fmt.Sprintf("case %s: %s: %s", r.Case, r.Verdict, r.Harness))
		}
		if !stopped && (time.Now().After(deadline) || len(harness) > 20) {
			stopped = true
			close(stop)
		}
	}
	batchS := time.Since(t0).Seconds()

	// triage: confirm twice, minimise, write replay
	var sigList []*sigInfo
	for _, s := range sigs {
		sigList = append(sigList, s)
	}
	sort.Slice(sigList, func(i, j int) bool { return sigList[i].Sig < sigList[j].Sig })
	exit := 0
	unrepro := 0
	minimised := 0
	knownSeen := map[string]int{}
	minBudget := 45 * time.Second
	if tier == "thorough" {
		minBudget = 120 * time.Second
	}
	for _, s := range sigList {
		s.Known = matchKnown(findings, spec.Prop, s.Sig)
		if s.Known != nil {
			knownSeen[s.Known.Signature] += s.Count
			continue
		}
		if len(s.Tape) == 0 {
			harness = append(harness, "violation without tape: "+s.Sig)
			continue
		}
		okc, attempts := 0, 2
		isRace := strings.HasPrefix(s.Sig, "race|")
		if isRace {
			// whether the race detector still holds the earlier access in its shadow memory depends on
			// evictions the tape does not control: a race report must reproduce twice in six attempts,
			// and one that never does is counted, not reported
			attempts = 6
		}
		race := spec.Race || isRace
		for k := 0; k < attempts && okc < 2; k++ {
			o := runTape(b, spec, s.Tape, "", childTimeout, race)
			if o.Res != nil && hasSig(o.Res, s.Sig) {
				okc++
			}
		}
		if okc < 2 {
			unrepro++
			if isRace {
				agg.stats["race_reports_not_reproduced"]++
				continue
			}
			harness = append(harness, fmt.Sprintf("violation %q from %s did not reproduce from its tape (%d/2)", s.Sig, s.FirstCase, okc))
			continue
		}
		s.Confirmed = true
		minimised++
		mb := minBudget
		if minimised > 6 {
			mb = 0 // many signatures at once: report the rest with their original tapes
		}
		minTape, tries := minimise(b, spec, s.Tape, s.Sig, mb, race, childTimeout)
		s.MinTries = tries
		fin := runTape(b, spec, minTape, "trace", childTimeout, race)
		if fin.Res == nil || !hasSig(fin.Res, s.Sig) {
			minTape = s.Tape
			fin = runTape(b, spec, minTape, "trace", childTimeout, race)
		}
		var detail json.RawMessage = s.Detail
		var trace []string
		if fin.Res != nil {
			trace = fin.Res.Trace
			for _, v := range fin.Res.Violations {
				if v.Signature == s.Sig {
					detail = v.Detail
				}
			}
		}
		os.MkdirAll(filepath.Join(verifDir(), "replays"), 0o755)
		s.Replay = replayPath(spec.Prop, s.Sig)
		rf := map[string]interface{}{
			"property": spec.Prop, "engine": spec.Engine, "signature": s.Sig, "from_case": s.FirstCase,
			"verif_seed": seed, "tier": tier, "minimised": true, "minimise_tries": tries,
			"occurrences_in_batch": s.Count, "tape": json.RawMessage(minTape), "detail": detail, "trace": trace,
		}
		rb, _ := json.MarshalIndent(rf, "", " ")
		if err := os.WriteFile(s.Replay, rb, 0o644); err != nil {
			harness = append(harness, err.Error())
			continue
		}
		exit = 1
	}

	// reach probes gate the thorough tier
	var zeroProbes []string
	for _, p := range meta.WorkloadProbes {
		if agg.probes[p] == 0 {
			zeroProbes = append(zeroProbes, p)
		}
	}
	wall := time.Since(t0).Seconds()
	ev := agg.evidence(spec, meta, tier, seed, wall, batchS, b, firstSeed, lastSeed, sigList, knownSeen, zeroProbes, detSeeds, detProcs, stopped, total)
	if err := writeEvidence(spec.Prop, ev); err != nil {
		harness = append(harness, err.Error())
	}
	for _, f := range findings {
		if f.Status == "known" && f.Property == spec.Prop {
			n := knownSeen[f.Signature]
			fmt.Printf("KNOWN-FINDING: property=%s %s [signature %s; seen %d times in this batch]\n", spec.Prop, f.What, f.Signature, n)
		}
	}
	for _, f := range findings {
		if n := foreignSeen[f.Property+"|"+f.Signature]; n > 0 && f.Status == "known" {
			fmt.Printf("KNOWN-FINDING: property=%s %s [signature %s; killed %d runs of this batch of %s]\n", f.Property, f.What, f.Signature, n, spec.Prop)
		}
	}
	for _, s := range sigList {
		if s.Replay != "" {
			fmt.Printf("VIOLATION property=%s replay=%s\n", spec.Prop, s.Replay)
			fmt.Printf("  signature: %s (seen %d times, first in %s, minimised in %d tries)\n", s.Sig, s.Count, s.FirstCase, s.MinTries)
		}
	}
	fmt.Printf("%s %s: %d runs (%d judged evaluations) in %.1fs, %d distinct non-trivial classes, %d distinct interleavings, violations: %d signatures\n",
		spec.Prop, tier, agg.runs, agg.evals, wall, len(agg.classes), len(agg.interleavings), len(sigList)-len(knownSeenSigs(sigList)))
	if len(harness) > 0 {
		for i, h := range harness {
			if i >= 10 {
				fmt.Printf("HARNESS-ERROR ... and %d more\n", len(harness)-10)
				break
			}
			fmt.Printf("HARNESS-ERROR %s\n", h)
		}
		if exit == 0 {
			return 2
		}
	}
	if detBad != "" && exit == 0 {
		return harnessErr("determinism slice: %s", detBad)
	}
	if detBad != "" {
		fmt.Printf("NOTE determinism slice failed (%s): the runs of this tree are not reproducible from their seeds alone\n", detBad)
	}
	if tier == "thorough" && len(zeroProbes) > 0 && exit == 0 {
		return harnessErr("workload reach probes never hit: %v", zeroProbes)
	}
	return exit
}

func knownSeenSigs(l []*sigInfo) []*sigInfo {
	var o []*sigInfo
	for _, s := range l {
		if s.Known != nil {
			o = append(o, s)
		}
	}
	return o
}

// determinismSlice runs a few cases several times at different GOMAXPROCS and compares the
// complete result lines.
func determinismSlice(bin, tier string, rng *core.Rng, seeds, procs int, to time.Duration, sweepOnly ...int) string {
	type res struct {
		kase, raw string
		err       string
	}
	var mu sync.Mutex
	var wg sync.WaitGroup
	out := map[string][]string{}
	skip := map[string]bool{}
	var errs []string
	gmps := []int{1, 4, 16}
	for s := 0; s < seeds; s++ {
		kase := fmt.Sprintf("seed:%d", rng.U64()>>1)
		if len(sweepOnly) > 0 && sweepOnly[0] > 0 {
			kase = fmt.Sprintf("sweep:%d", rng.Intn(sweepOnly[0])) // the engine only enumerates
		}
		for p := 0; p < procs; p++ {
			wg.Add(1)
			go func(kase string, p int) {
				defer wg.Done()
				o := runChild(childOpts{Bin: bin, Mode: "run", Case: kase, Tier: tier, Emit: "trace", Timeout: to, Gomaxproc: gmps[p%3]})
				mu.Lock()
				defer mu.Unlock()
				if o.Res == nil {
					errs = append(errs, fmt.Sprintf("%s: no result: %s %s", kase, o.Err, tail(o.Stderr, 800)))
					return
				}
				if o.Res.Verdict == "harness-error" {
					errs = append(errs, fmt.Sprintf("%s: %s", kase, o.Res.Harness))
					return
				}
				if o.Res.Verdict != "ok" {
					// a violating run is confirmed by re-execution of its tape; its detail may hold
					// real measurements (bytes allocated), so it is not part of this comparison
					skip[kase] = true
				}
				out[kase] = append(out[kase], stripVolatile(o.Raw))
			}(kase, p)
		}
	}
	wg.Wait()
	if len(errs) > 0 {
		return errs[0]
	}
	for k, raws := range out {
		if skip[k] {
			continue
		}
		for _, r := range raws[1:] {
			if r != raws[0] {
				return fmt.Sprintf("case %s produced different result lines in different processes", k)
			}
		}
	}
	return ""
}

// stripVolatile removes real measurements from a result line before the determinism comparison.
func stripVolatile(raw string) string {
	if !strings.Contains(raw, `"volatile"`) {
		return raw
	}
	var m map[string]json.RawMessage
	if json.Unmarshal([]byte(raw), &m) != nil {
		return raw
	}
	delete(m, "volatile")
	var r core.Result
	if json.Unmarshal([]byte(raw), &r) != nil {
		return raw
	}
	r.Volatile = nil
	b, err := json.Marshal(r)
	if err != nil {
		return raw
	}
	return string(b)
}

func cmdReplay(args []string) int {
	if len(args) < 1 {
		usage()
	}
	rb, err := os.ReadFile(args[0])
	if err != nil {
		return harnessErr("%v", err)
	}
	var rf struct {
		Property  string          `json:"property"`
		Engine    string          `json:"engine"`
		Signature string          `json:"signature"`
		Tape      json.RawMessage `json:"tape"`
	}
	if err := json.Unmarshal(rb, &rf); err != nil {
		return harnessErr("%v", err)
	}
	spec, ok := specFor(rf.Property)
	if !ok {
		return harnessErr("unknown property %s", rf.Property)
	}
	race := spec.Race || strings.HasPrefix(rf.Signature, "race|")
	b, err := buildEngine(spec, race)
	if err != nil {
		return harnessErr("%v", err)
	}
	defer b.cleanup()
	o := runTape(b, spec, rf.Tape, "trace", 300*time.Second, race)
	if o.Res == nil {
		return harnessErr("no result: %s %s", o.Err, tail(o.Stderr, 2000))
	}
	for _, l := range o.Res.Trace {
		fmt.Println(l)
	}
	for _, v := range o.Res.Violations {
		fmt.Printf("violation: %s %s\n", v.Signature, v.Detail)
	}
	if hasSig(o.Res, rf.Signature) {
		fmt.Printf("VIOLATION property=%s replay=%s\n", rf.Property, args[0])
		return 1
	}
	fmt.Printf("replay of %s: signature %q not reproduced (verdict %s)\n", args[0], rf.Signature, o.Res.Verdict)
	return 0
}

func cmdRun(args []string) int {
	if len(args) < 2 {
		usage()
	}
	spec, ok := specFor(args[0])
	if !ok {
		return harnessErr("unknown property %s", args[0])
	}
	race := hasFlag(args, "--race")
	b, err := buildEngine(spec, race)
	if err != nil {
		return harnessErr("%v", err)
	}
	defer b.cleanup()
	bin := b.Bin
	if race {
		bin = b.RaceBin
	}
	var o childOut
	if _, err := os.Stat(args[1]); err == nil {
		o = runChild(childOpts{Bin: bin, Mode: "run", TapeFile: args[1], Emit: "tape,trace", Timeout: 600 * time.Second})
	} else {
		o = runChild(childOpts{Bin: bin, Mode: "run", Case: args[1], Tier: flagVal(args, "--tier", "quick"), Emit: "tape,trace", Timeout: 600 * time.Second})
	}
	if o.Res == nil {
		fmt.Println(o.Err, o.ExitCode, o.Stderr)
		return 2
	}
	for _, l := range o.Res.Trace {
		fmt.Println(l)
	}
	o.Res.Trace = nil
	jb, _ := json.MarshalIndent(o.Res, "", " ")
	fmt.Println(string(jb))
	if o.Stderr != "" {
		fmt.Println("--- stderr ---")
		fmt.Println(tail(o.Stderr, 6000))
	}
	return 0
}

func cmdSelftest(args []string) int {
	if len(args) < 1 {
		usage()
	}
	spec, ok := specFor(args[0])
	if !ok {
		return harnessErr("unknown property %s", args[0])
	}
	seeds, _ := strconv.Atoi(flagVal(args, "--seeds", "30"))
	procs, _ := strconv.Atoi(flagVal(args, "--procs", "30"))
	b, err := buildEngine(spec, spec.Race)
	if err != nil {
		return harnessErr("%v", err)
	}
	defer b.cleanup()
	rng := core.NewRng(uint64(envInt("VERIF_SEED", 77))).Derive("selftest")
	bins := []string{b.Bin}
	if spec.Race {
		bins = append(bins, b.RaceBin)
	}
	sweepOnly := 0
	if meta, err := getMeta(b.Bin); err == nil && meta.SeededQuick == 0 {
		sweepOnly = meta.SweepQuick // the engine only enumerates
	}
	for _, bin := range bins {
		// run in slices to bound the number of concurrent processes
		for s := 0; s < seeds; s += 4 {
			n := 4
			if s+n > seeds {
				n = seeds - s
			}
			if bad := determinismSlice(bin, "quick", rng.Derive(fmt.Sprint(s)), n, procs, 300*time.Second, sweepOnly); bad != "" {
				fmt.Println("NONDETERMINISM:", bad)
				return 2
			}
		}
		fmt.Printf("determinism: %s: %d seeds x %d processes (GOMAXPROCS 1/4/16): identical result lines\n", filepath.Base(bin), seeds, procs)
	}
	return 0
}
