package main

import (
	"bufio"
	"bytes"
	"context"
	"encoding/json"
	"fmt"
	"os"
	"os/exec"
	"path/filepath"
	"regexp"
	"strings"
	"sync/atomic"
	"time"

	"verifsim/core"
)

type childOut struct {
	Partial  []core.Violation // violations the child reported before it died
	Resume   []byte           // tape that continues a batch after the delivery that killed the child
	Res      *core.Result
	Raw      string // the RESULT line
	Stderr   string
	ExitCode int
	TimedOut bool
	Err      string
}

type childOpts struct {
	Bin       string
	Mode      string // run | meta | gen
	Case      string
	TapeFile  string
	Tier      string
	Emit      string
	Timeout   time.Duration
	Gomaxproc int
	ExtraEnv  []string
}

func runChild(o childOpts) childOut {
	if o.Timeout == 0 {
		o.Timeout = 120 * time.Second
	}
	ctx, cancel := context.WithTimeout(context.Background(), o.Timeout)
	defer cancel()
	cmd := exec.CommandContext(ctx, o.Bin, "-test.run", "^TestSim$", "-test.timeout", "0")
	gmp := o.Gomaxproc
	if gmp == 0 {
		gmp = 2
	}
	env := []string{
		"VERIF_MODE=" + o.Mode, "VERIF_CASE=" + o.Case, "VERIF_TIER=" + o.Tier, "VERIF_EMIT=" + o.Emit,
		"VERIF_TAPE_FILE=" + o.TapeFile, fmt.Sprintf("GOMAXPROCS=%d", gmp),
		"GODEBUG=randseednop=0", "GORACE=atexit_sleep_ms=0 halt_on_error=0 history_size=4",
		"PATH=" + os.Getenv("PATH"), "HOME=" + os.Getenv("HOME"), "TMPDIR=" + os.TempDir(),
		"VERIF_REPO=" + repoDir(), "VERIF_SEED=" + os.Getenv("VERIF_SEED"),
		"VERIF_DEBUG=" + os.Getenv("VERIF_DEBUG"), // development aid: engines may report more (never set by the registered commands)
	}
	markFile := filepath.Join(os.TempDir(), fmt.Sprintf("verifsim-mark-%d-%d", os.Getpid(), markSeq.Add(1)))
	env = append(env, "VERIF_MARK_FILE="+markFile)
	defer os.Remove(markFile)
	cmd.Env = append(env, o.ExtraEnv...)
	var so, se bytes.Buffer
	cmd.Stdout, cmd.Stderr = &so, &se
	err := cmd.Run()
	out := childOut{Stderr: se.String()}
	if ctx.Err() == context.DeadlineExceeded {
		out.TimedOut = true
	}
	if err != nil {
		if ee, ok := err.(*exec.ExitError); ok {
			out.ExitCode = ee.ExitCode()
		} else {
			out.Err = err.Error()
		}
	}
	sc := bufio.NewScanner(&so)
	sc.Buffer(make([]byte, 1<<20), 256<<20)
	for sc.Scan() {
		ln := sc.Text()
		switch {
		case strings.HasPrefix(ln, "RESULT "):
			out.Raw = ln[7:]
			var r core.Result
			if e := json.Unmarshal([]byte(out.Raw), &r); e != nil {
				out.Err = "bad result line: " + e.Error()
			} else {
				out.Res = &r
			}
		case strings.HasPrefix(ln, "PARTIAL "):
			var v core.Violation
			if json.Unmarshal([]byte(ln[8:]), &v) == nil {
				out.Partial = append(out.Partial, v)
			}
		case strings.HasPrefix(ln, "META "), strings.HasPrefix(ln, "TAPE "):
			out.Raw = ln[5:]
		case strings.HasPrefix(ln, "GENERR "):
			out.Err = ln
		}
	}
	applyRaces(&out)
	if out.Res == nil && o.Mode == "run" && !out.TimedOut {
		applyCrash(&out, markFile)
	}
	return out
}

var markSeq atomic.Int64

var numRe = regexp.MustCompile(`(0x[0-9a-f]+|[0-9]+)`)

var fatalRe = regexp.MustCompile(`(?m)^(fatal error|panic|runtime: out of memory|SIGSEGV)[: ].*$`)

// applyCrash turns the death of a child into a judged result when the engine had marked what it
// was delivering: a fatal runtime error (stack exhaustion, out of memory, concurrent map access)
// cannot be recovered inside the child, but it is still the code under test that failed.
func applyCrash(o *childOut, markFile string) {
	mb, err := os.ReadFile(markFile)
	if err != nil || len(mb) == 0 {
		return
	}
	mb = bytes.TrimRight(mb, " \n\x00")
	var mk struct {
		Engine string          `json:"engine"`
		Point  string          `json:"point"`
		Tape   json.RawMessage `json:"tape"`
		What   string          `json:"what"`
		Resume json.RawMessage `json:"resume"`
	}
	if json.Unmarshal(mb, &mk) != nil || len(mk.Tape) == 0 {
		return
	}
	msg := "process died"
	if m := fatalRe.FindString(o.Stderr); m != "" {
		msg = m
		if len(msg) > 80 {
			msg = msg[:80]
		}
	}
	frame := "?"
	for _, ln := range strings.Split(o.Stderr, "\n") {
		t := strings.TrimSpace(ln)
		if strings.HasPrefix(t, "github.com/jcmturner/") {
			frame = strings.TrimPrefix(t, "github.com/jcmturner/")
			if i := strings.LastIndex(frame, "("); i > 0 {
				frame = frame[:i]
			}
			break
		}
	}
	sig := "crash|" + mk.Point + "|" + frame + "|" + strings.SplitN(msg, ":", 3)[0]
	if parts := strings.SplitN(msg, ": ", 2); len(parts) == 2 {
		// the message without its numbers (sizes, addresses), which differ from run to run
		what := numRe.ReplaceAllString(parts[1], "N")
		if i := strings.Index(what, " ("); i > 0 {
			what = what[:i]
		}
		sig = "crash|" + mk.Point + "|" + frame + "|" + what
	}
	o.Res = &core.Result{Engine: mk.Engine, Verdict: "violation", Evals: 1, Class: "crash", Nontrivial: true, Tape: mk.Tape,
		Violations: []core.Violation{{Signature: sig, Detail: core.MustJSON(map[string]string{"delivery": mk.What, "stderr": tail(o.Stderr, 1500), "exit": fmt.Sprint(o.ExitCode)})}},
		Stats:      map[string]int64{"crashed_children": 1}, Faults: map[string]int{}, Probes: map[string]int{}}
	for _, v := range o.Partial {
		dup := false
		for _, w := range o.Res.Violations {
			dup = dup || w.Signature == v.Signature
		}
		if !dup {
			o.Res.Violations = append(o.Res.Violations, v)
		}
	}
	o.Raw = string(core.MustJSON(o.Res))
	if len(mk.Resume) > 2 {
		o.Resume = mk.Resume
	}
}

// genericCrashSignature names the death of a child of any engine the way applyCrash does for
// engines that mark their deliveries: crash|<engine>|<innermost frame of the library or its
// dependency>|<fatal message without numbers>.
func genericCrashSignature(engine, stderr string) string {
	msg := "process died"
	if m := fatalRe.FindString(stderr); m != "" {
		msg = m
		if len(msg) > 80 {
			msg = msg[:80]
		}
	}
	frame := "?"
	for _, ln := range strings.Split(stderr, "\n") {
		t := strings.TrimSpace(ln)
		if strings.HasPrefix(t, "github.com/jcmturner/") {
			frame = strings.TrimPrefix(t, "github.com/jcmturner/")
			if i := strings.LastIndex(frame, "("); i > 0 {
				frame = frame[:i]
			}
			break
		}
	}
	what := strings.SplitN(msg, ":", 3)[0]
	if parts := strings.SplitN(msg, ": ", 2); len(parts) == 2 {
		what = numRe.ReplaceAllString(parts[1], "N")
		if i := strings.Index(what, " ("); i > 0 {
			what = what[:i]
		}
	}
	return "crash|" + engine + "|" + frame + "|" + what
}

func getMeta(bin string) (core.Meta, error) {
	o := runChild(childOpts{Bin: bin, Mode: "meta", Timeout: 60 * time.Second})
	var m core.Meta
	if o.Raw == "" {
		return m, fmt.Errorf("no META line (exit %d) %s %s", o.ExitCode, o.Err, tail(o.Stderr, 2000))
	}
	if err := json.Unmarshal([]byte(o.Raw), &m); err != nil {
		return m, err
	}
	return m, nil
}

func tail(s string, n int) string {
	if len(s) > n {
		return "..." + s[len(s)-n:]
	}
	return s
}

// runTape executes an explicit tape in a fresh process.
func runTape(b *built, spec engSpec, tape []byte, emit string, timeout time.Duration, race bool) childOut {
	f, err := os.CreateTemp(b.Dir, "tape-*.json")
	if err != nil {
		return childOut{Err: err.Error()}
	}
	f.Write(tape)
	f.Close()
	defer os.Remove(f.Name())
	bin := b.Bin
	if race && b.RaceBin != "" {
		bin = b.RaceBin
	}
	return runChild(childOpts{Bin: bin, Mode: "run", TapeFile: f.Name(), Emit: emit, Timeout: timeout})
}

func hasSig(r *core.Result, sig string) bool {
	if r == nil {
		return false
	}
	for _, v := range r.Violations {
		if v.Signature == sig || sameResourceClass(v.Signature, sig) {
			return true
		}
	}
	return false
}

// sameResourceClass: a delivery that makes the consumer allocate without bound shows as an
// allocation violation when it runs alone and as an out-of-memory crash (or a long stall) when the
// process already holds memory from earlier deliveries; for reproduction these are one violation.
func sameResourceClass(a, b string) bool {
	pa, pb := strings.SplitN(a, "|", 3), strings.SplitN(b, "|", 3)
	if len(pa) < 2 || len(pb) < 2 || pa[1] != pb[1] {
		return false
	}
	res := func(k string) bool { return k == "crash" || k == "allocation" || k == "hang" }
	return res(pa[0]) && res(pb[0])
}

func replayPath(prop, sig string) string {
	h := core.HashStrings([]string{sig})
	return filepath.Join(verifDir(), "replays", fmt.Sprintf("%s-%s.json", prop, h))
}
