package main

import "verifsim/refkrb/rcrypto"

func init() { refSelfTests = append(refSelfTests, rcrypto.SelfTest) }
