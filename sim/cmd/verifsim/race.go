package main

import (
	"fmt"
	"regexp"
	"sort"
	"strings"

	"verifsim/core"
)

// The race detector writes its reports to the child's stderr.  Each report becomes a violation
// whose signature is the unordered pair of the innermost gokrb5 functions of the two conflicting
// accesses (DESIGN 3, C11).  A report without any gokrb5 frame means the harness raced with
// itself and is a harness error, never a violation.

var accessHdr = regexp.MustCompile(`^(Write|Read|Previous write|Previous read|Atomic write|Atomic read|Previous atomic write|Previous atomic read) at 0x[0-9a-f]+ by (goroutine \d+|main goroutine):`)

const gokrb5Prefix = "github.com/jcmturner/gokrb5/v8/"

type raceReport struct {
	Funcs   [2]string // innermost gokrb5 function per access ("" = none)
	Kinds   [2]string
	Harness bool
	Text    string
	Destroy bool // one of the accesses happens inside Client.Destroy (publication of new credentials)
}

func parseRaces(stderr string) []raceReport {
	var out []raceReport
	blocks := strings.Split(stderr, "==================")
	for _, b := range blocks {
		if !strings.Contains(b, "WARNING: DATA RACE") {
			continue
		}
		var rep raceReport
		rep.Text = b
		idx := -1
		for _, ln := range strings.Split(b, "\n") {
			if m := accessHdr.FindStringSubmatch(ln); m != nil {
				idx++
				if idx < 2 {
					rep.Kinds[idx] = strings.ToLower(strings.TrimPrefix(strings.TrimPrefix(m[1], "Previous "), "previous "))
				}
				continue
			}
			if strings.HasPrefix(ln, "Goroutine ") {
				idx = 2 // creation stacks are not accesses
				continue
			}
			if idx >= 0 && idx <= 1 && strings.Contains(ln, gokrb5Prefix+"client.(*Client).Destroy(") {
				rep.Destroy = true
			}
			if idx < 0 || idx > 1 || rep.Funcs[idx] != "" {
				continue
			}
			t := strings.TrimSpace(ln)
			if strings.HasPrefix(t, gokrb5Prefix) {
				fn := strings.TrimPrefix(t, gokrb5Prefix)
				if i := strings.LastIndex(fn, "("); i > 0 {
					fn = fn[:i]
				}
				rep.Funcs[idx] = fn
			}
		}
		if rep.Funcs[0] == "" && rep.Funcs[1] == "" {
			rep.Harness = true
		}
		out = append(out, rep)
	}
	return out
}

func (r raceReport) signature() string {
	a, b := r.Funcs[0], r.Funcs[1]
	if a == "" {
		a = "(caller outside gokrb5)"
	}
	if b == "" {
		b = "(caller outside gokrb5)"
	}
	p := []string{a, b}
	sort.Strings(p)
	sig := "race|" + p[0] + "|" + p[1]
	if r.Destroy && !strings.Contains(sig, "Destroy") {
		sig += "|inside client.(*Client).Destroy"
	}
	return sig
}

// applyRaces folds the race reports of a child into its result.
func applyRaces(o *childOut) {
	if o.Res == nil || !strings.Contains(o.Stderr, "WARNING: DATA RACE") {
		return
	}
	reps := parseRaces(o.Stderr)
	seen := map[string]bool{}
	for _, r := range reps {
		if r.Harness {
			if o.Res.Verdict == "ok" {
				o.Res.Verdict = "harness-error"
			}
			o.Res.Harness += "race report without gokrb5 frames:\n" + tail(r.Text, 1500)
			continue
		}
		sig := r.signature()
		if seen[sig] {
			continue
		}
		seen[sig] = true
		txt := r.Text
		if len(txt) > 3000 {
			txt = txt[:3000]
		}
		dup := false
		for _, v := range o.Res.Violations {
			dup = dup || v.Signature == sig
		}
		if !dup {
			o.Res.Violations = append(o.Res.Violations, core.Violation{Signature: sig, Detail: core.MustJSON(map[string]interface{}{"accesses": fmt.Sprintf("%s / %s", r.Kinds[0], r.Kinds[1]), "report": txt})})
		}
		if o.Res.Verdict == "ok" {
			o.Res.Verdict = "violation"
		}
	}
	if o.Res.Stats == nil {
		o.Res.Stats = map[string]int64{}
	}
	o.Res.Stats["race_reports"] += int64(len(reps))
}
