// Package core holds what the orchestrator and the engine children share: the PRNG that every
// choice is derived from, the result line a child prints, and small helpers.  It imports nothing
// from gokrb5.
package core

import (
	"crypto/sha256"
	"encoding/hex"
	"encoding/json"
	"fmt"
	"sort"
)

// Rng is SplitMix64.  One integer decides everything: every stream in a run is an Rng derived
// from the run seed with Derive, never from a clock or from the global math/rand.
type Rng struct{ s uint64 }

func NewRng(seed uint64) *Rng { return &Rng{s: seed} }

func (r *Rng) U64() uint64 {
	r.s += 0x9e3779b97f4a7c15
	z := r.s
	z = (z ^ (z >> 30)) * 0xbf58476d1ce4e5b9
	z = (z ^ (z >> 27)) * 0x94d049bb133111eb
	return z ^ (z >> 31)
}

// Derive returns an independent stream for a named purpose.
func (r *Rng) Derive(label string) *Rng {
	h := sha256.Sum256([]byte(fmt.Sprintf("%d/%s", r.s, label)))
	var s uint64
	for i := 0; i < 8; i++ {
		s = s<<8 | uint64(h[i])
	}
	return &Rng{s: s}
}

// Intn returns a value in [0,n).
func (r *Rng) Intn(n int) int {
	if n <= 1 {
		return 0
	}
	return int(r.U64() % uint64(n))
}

// Range returns a value in [lo,hi].
func (r *Rng) Range(lo, hi int) int {
	if hi <= lo {
		return lo
	}
	return lo + r.Intn(hi-lo+1)
}

func (r *Rng) Chance(num, den int) bool { return r.Intn(den) < num }

func (r *Rng) Float() float64 { return float64(r.U64()>>11) / float64(1<<53) }

func (r *Rng) Bytes(n int) []byte {
	b := make([]byte, n)
	for i := 0; i < n; i += 8 {
		v := r.U64()
		for j := 0; j < 8 && i+j < n; j++ {
			b[i+j] = byte(v >> (8 * uint(j)))
		}
	}
	return b
}

// Pick returns one of the strings.
func (r *Rng) Pick(xs ...string) string { return xs[r.Intn(len(xs))] }

// PickInt returns one of the ints.
func (r *Rng) PickInt(xs ...int) int { return xs[r.Intn(len(xs))] }

// Perm returns a permutation of 0..n-1.
func (r *Rng) Perm(n int) []int {
	p := make([]int, n)
	for i := range p {
		p[i] = i
	}
	for i := n - 1; i > 0; i-- {
		j := r.Intn(i + 1)
		p[i], p[j] = p[j], p[i]
	}
	return p
}

// Violation is one judged failure of the property in a run.
type Violation struct {
	Signature string          `json:"signature"` // what "the same violation" means (DESIGN 5.4)
	Detail    json.RawMessage `json:"detail,omitempty"`
}

// Result is the single line a child prints ("RESULT " + JSON).  It contains nothing that depends
// on wall-clock time, process ids or map order, so two executions of one tape print equal lines.
type Result struct {
	Engine     string           `json:"engine"`
	Case       string           `json:"case"`    // "seed:<n>" | "sweep:<i>" | "tape"
	Verdict    string           `json:"verdict"` // ok | violation | invalid | harness-error
	Violations []Violation      `json:"violations,omitempty"`
	Harness    string           `json:"harness,omitempty"` // reason for harness-error / invalid
	Class      string           `json:"class"`             // configuration/fault/interleaving class for the distinct count
	Nontrivial bool             `json:"nontrivial"`
	Faults     map[string]int   `json:"faults,omitempty"`   // fault kinds that actually fired
	Probes     map[string]int   `json:"probes,omitempty"`   // reach probes hit
	Stats      map[string]int64 `json:"stats,omitempty"`    // free counters (dont_care, inconclusive, ops ...)
	Volatile   map[string]int64 `json:"volatile,omitempty"` // real measurements (allocation); not part of the determinism comparison
	Interleave string           `json:"interleave,omitempty"`
	SimNs      int64            `json:"sim_ns"`
	Ties       int              `json:"ties"`
	Evals      int              `json:"evals"` // judged evaluations in this run (>=1)
	TraceHash  string           `json:"trace_hash"`
	Tape       json.RawMessage  `json:"tape,omitempty"`
	Trace      []string         `json:"trace,omitempty"`
}

// Meta is what an engine declares about itself (TestMeta).
type Meta struct {
	Engine         string            `json:"engine"`
	Property       string            `json:"property"`
	Level          string            `json:"level"`
	Rule           string            `json:"rule"`
	SweepQuick     int               `json:"sweep_quick"`    // number of systematic cases in the quick tier
	SweepThorough  int               `json:"sweep_thorough"` // number of systematic cases in the thorough tier
	SeededQuick    int               `json:"seeded_quick"`
	SeededThorough int               `json:"seeded_thorough"`
	Race           bool              `json:"race"`
	WorkloadProbes []string          `json:"workload_probes"` // must be >0 in a thorough batch, else exit 2
	Components     map[string]string `json:"components"`
	Assumptions    []string          `json:"assumptions"`
	Exhaustive     bool              `json:"exhaustive"` // thorough sweep enumerates a finite space completely
	ChildTimeoutS  int               `json:"child_timeout_s"`
}

func HashStrings(xs []string) string {
	h := sha256.New()
	for _, x := range xs {
		h.Write([]byte(x))
		h.Write([]byte{0})
	}
	return hex.EncodeToString(h.Sum(nil))[:16]
}

func SortedKeys(m map[string]int) []string {
	ks := make([]string, 0, len(m))
	for k := range m {
		ks = append(ks, k)
	}
	sort.Strings(ks)
	return ks
}

func MustJSON(v interface{}) json.RawMessage {
	b, err := json.Marshal(v)
	if err != nil {
		panic(err)
	}
	return b
}
