// Package simsync is what the overlaid gokrb5 files import under the name "sync".  Mutex and
// RWMutex are the real ones, acquired with a TryLock loop whose every iteration is a seeded
// yield: a goroutine blocked inside a real sync.Mutex is not durably blocked for synctest and
// would freeze the fake clock.  Each acquisition attempt and each release is a scheduling
// point, so the scheduler decides every interleaving at the library's lock boundaries.
package simsync

import (
	"fmt"
	"sync"
	"sync/atomic"

	"verifsim/simrt"
)

type (
	Once      = sync.Once
	WaitGroup = sync.WaitGroup
	Cond      = sync.Cond
	Map       = sync.Map
	Pool      = sync.Pool
	Locker    = sync.Locker
)

// pass-through of the remaining names of package sync
func OnceFunc(f func()) func()                                 { return sync.OnceFunc(f) }
func OnceValue[T any](f func() T) func() T                     { return sync.OnceValue(f) }
func OnceValues[T1, T2 any](f func() (T1, T2)) func() (T1, T2) { return sync.OnceValues(f) }
func NewCond(l sync.Locker) *sync.Cond                         { return sync.NewCond(l) }

// Passive turns the shim into the plain primitives (no yields, no log): single-task engines that
// place the clock exactly on a time bound must not have simulated time pass inside the call under
// test.  Set before any task starts.
var Passive bool

// SpinLimit is the number of failed acquisition attempts after which a task is declared stuck.
var SpinLimit = 20000

// OnStuck is called when a task cannot get a lock (deadlock / lost release).
var OnStuck func(site string, owner int32)

type Mutex struct {
	mu    sync.Mutex
	owner atomic.Int32 // task id + 1 of the holder (diagnosis only)
}

func stuck(site string, owner int32) {
	if OnStuck != nil {
		OnStuck(site, owner-1)
	}
	simrt.Abort("lock-stuck", fmt.Sprintf("%s owner=T%d", site, owner-1))
}

func (m *Mutex) Lock() {
	if Passive {
		m.mu.Lock()
		return
	}
	site := simrt.CallerSite(2)
	simrt.Yield(site + " Lock?")
	for n := 0; !m.mu.TryLock(); n++ {
		if n > SpinLimit {
			stuck(site+" Lock", m.owner.Load())
		}
		simrt.Yield(site + " Lock-wait")
	}
	m.owner.Store(int32(simrt.Cur().ID) + 1)
	simrt.Sitef("%s Lock!", site)
}

func (m *Mutex) TryLock() bool {
	ok := m.mu.TryLock()
	if ok {
		m.owner.Store(int32(simrt.Cur().ID) + 1)
	}
	return ok
}

func (m *Mutex) Unlock() {
	if Passive {
		m.mu.Unlock()
		return
	}
	site := simrt.CallerSite(2)
	m.owner.Store(0)
	m.mu.Unlock()
	simrt.Sitef("%s Unlock", site)
	simrt.Yield(site + " unlocked")
}

// RWMutex keeps the one property of sync.RWMutex that a TryLock loop loses: a writer that is
// waiting blocks new readers ("if any goroutine calls Lock while the lock is already held by one
// or more readers, concurrent calls to RLock will block until the writer has acquired (and
// released) the lock").  Without it a goroutine that read-locks twice could never be caught
// deadlocking against a writer that arrives in between.
type RWMutex struct {
	mu      sync.RWMutex
	owner   atomic.Int32
	writers atomic.Int32 // writers waiting for the lock
}

func (m *RWMutex) Lock() {
	if Passive {
		m.mu.Lock()
		return
	}
	site := simrt.CallerSite(2)
	simrt.Yield(site + " Lock?")
	m.writers.Add(1)
	for n := 0; !m.mu.TryLock(); n++ {
		if n > SpinLimit {
			stuck(site+" Lock", m.owner.Load())
		}
		simrt.Yield(site + " Lock-wait")
	}
	m.writers.Add(-1)
	m.owner.Store(int32(simrt.Cur().ID) + 1)
	simrt.Sitef("%s Lock!", site)
}

func (m *RWMutex) Unlock() {
	if Passive {
		m.mu.Unlock()
		return
	}
	site := simrt.CallerSite(2)
	m.owner.Store(0)
	m.mu.Unlock()
	simrt.Sitef("%s Unlock", site)
	simrt.Yield(site + " unlocked")
}

func (m *RWMutex) RLock() {
	if Passive {
		m.mu.RLock()
		return
	}
	site := simrt.CallerSite(2)
	simrt.Yield(site + " RLock?")
	for n := 0; m.writers.Load() > 0 || !m.mu.TryRLock(); n++ {
		if n > SpinLimit {
			stuck(site+" RLock", m.owner.Load())
		}
		simrt.Yield(site + " RLock-wait")
	}
	simrt.Sitef("%s RLock!", site)
}

func (m *RWMutex) RUnlock() {
	if Passive {
		m.mu.RUnlock()
		return
	}
	site := simrt.CallerSite(2)
	m.mu.RUnlock()
	simrt.Sitef("%s RUnlock", site)
	simrt.Yield(site + " runlocked")
}

func (m *RWMutex) TryLock() bool  { return m.mu.TryLock() }
func (m *RWMutex) TryRLock() bool { return m.mu.TryRLock() }
func (m *RWMutex) RLocker() sync.Locker {
	return (*rlocker)(m)
}

type rlocker RWMutex

func (r *rlocker) Lock()   { (*RWMutex)(r).RLock() }
func (r *rlocker) Unlock() { (*RWMutex)(r).RUnlock() }
