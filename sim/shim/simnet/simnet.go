// Package simnet is what the overlaid gokrb5 files (client/network.go, spnego/http.go) import
// under the name "net": the same identifiers they use (DialTimeout, Conn, *UDPConn, *TCPConn,
// SplitHostPort, LookupCNAME), backed by a simulated transport and resolver that the engine
// installs.  There are no sockets, no goroutines and no real timers in here: servers are passive
// objects called inline from the caller's task, latency and deadlines are sleeps on the fake
// clock in the caller's scheduling slot.
package simnet

import (
	"errors"
	"fmt"
	"io"
	"net"
	"time"

	"verifsim/simrt"
)

type (
	IP      = net.IP
	IPNet   = net.IPNet
	IPAddr  = net.IPAddr
	Addr    = net.Addr
	Error   = net.Error
	OpError = net.OpError
	Conn    = net.Conn
	// further names of package net that an edit of the instrumented files may plausibly start to
	// use: they need no simulation (pure data types and helpers), so they are the real ones
	Buffers             = net.Buffers
	TCPAddr             = net.TCPAddr
	UDPAddr             = net.UDPAddr
	AddrError           = net.AddrError
	DNSError            = net.DNSError
	ParseError          = net.ParseError
	UnknownNetworkError = net.UnknownNetworkError
	InvalidAddrError    = net.InvalidAddrError
	HardwareAddr        = net.HardwareAddr
	IPMask              = net.IPMask
	Flags               = net.Flags
)

var (
	ErrClosed = net.ErrClosed
	IPv4len   = net.IPv4len
	IPv6len   = net.IPv6len
	IPv4zero  = net.IPv4zero
	IPv6zero  = net.IPv6zero
)

func IPv4(a, b, c, d byte) net.IP                    { return net.IPv4(a, b, c, d) }
func ParseCIDR(s string) (net.IP, *net.IPNet, error) { return net.ParseCIDR(s) }
func CIDRMask(ones, bits int) net.IPMask             { return net.CIDRMask(ones, bits) }
func IPv4Mask(a, b, c, d byte) net.IPMask            { return net.IPv4Mask(a, b, c, d) }

func SplitHostPort(hp string) (string, string, error) { return net.SplitHostPort(hp) }
func JoinHostPort(h, p string) string                 { return net.JoinHostPort(h, p) }
func ParseIP(s string) net.IP                         { return net.ParseIP(s) }

// Seg is one unit of arrival at the client: a TCP segment or a UDP datagram.
type Seg struct {
	DelayNs int64 // arrival time relative to the write that triggered the plan
	Data    []byte
}

// Plan is what the peer does after receiving a write.
type Plan struct {
	Segs []Seg
	Then string // after the last segment: "eof" (orderly close) | "silent" (nothing more, connection stays open) | "reset"
}

// Session is the server side of one connection.
type Session interface {
	// OnWrite receives the bytes of one Write call (TCP: raw stream including any length prefix).
	OnWrite(b []byte) (Plan, error)
	// OnClose tells the peer the client closed.
	OnClose()
}

// World is installed by the engine.
type World interface {
	// Dial is called inline; it may sleep (connect latency, connect timeout) and returns an
	// error for a refused or timed-out connection.
	Dial(network, address string, timeout time.Duration) (Session, error)
	LookupCNAME(host string) (string, error)
}

var world World

func Install(w World) { world = w }

type timeoutError struct{ op string }

func (e timeoutError) Error() string   { return e.op + ": i/o timeout" }
func (e timeoutError) Timeout() bool   { return true }
func (e timeoutError) Temporary() bool { return true }

// ErrTimeout reports whether err is a simulated deadline expiry.
func ErrTimeout(err error) bool {
	var t timeoutError
	return errors.As(err, &t)
}

var ErrRefused = errors.New("connect: connection refused")
var ErrReset = errors.New("read: connection reset by peer")
var errClosed = errors.New("use of closed network connection")

type addr struct{ network, s string }

func (a addr) Network() string { return a.network }
func (a addr) String() string  { return a.s }

type conn struct {
	network  string
	remote   string
	sess     Session
	deadline time.Time
	rdl, wdl time.Time
	closed   bool
	// arrival queue
	q    []arrival
	then string
	// counters for the engine
	Reads, Writes int
}

type arrival struct {
	at   time.Time
	data []byte
}

// UDPConn and TCPConn are distinct types so that the library's type assertions keep their meaning.
type UDPConn struct{ conn }
type TCPConn struct{ conn }

func LookupCNAME(host string) (string, error) {
	if world == nil {
		return "", errors.New("simnet: no world installed")
	}
	simrt.Yield("dns " + host)
	return world.LookupCNAME(host)
}

func Dial(network, address string) (net.Conn, error) { return DialTimeout(network, address, 0) }

func DialTimeout(network, address string, timeout time.Duration) (net.Conn, error) {
	if world == nil {
		return nil, errors.New("simnet: no world installed")
	}
	simrt.Yield("dial " + network + "!" + address)
	if _, _, err := net.SplitHostPort(address); err != nil {
		// what the real dialler says to an address without a port, or to an IPv6 address without brackets
		return nil, &net.OpError{Op: "dial", Net: network, Err: err}
	}
	s, err := world.Dial(network, address, timeout)
	if err != nil {
		return nil, &net.OpError{Op: "dial", Net: network, Addr: addr{network, address}, Err: err}
	}
	c := conn{network: network, remote: address, sess: s, then: "silent"}
	switch network {
	case "udp", "udp4", "udp6":
		return &UDPConn{c}, nil
	case "tcp", "tcp4", "tcp6":
		return &TCPConn{c}, nil
	}
	return nil, fmt.Errorf("simnet: unsupported network %q", network)
}

func (c *conn) LocalAddr() net.Addr  { return addr{c.network, "10.9.9.9:50000"} }
func (c *conn) RemoteAddr() net.Addr { return addr{c.network, c.remote} }

func (c *conn) SetDeadline(t time.Time) error {
	if c.closed {
		return errClosed
	}
	c.rdl, c.wdl = t, t
	return nil
}
func (c *conn) SetReadDeadline(t time.Time) error  { c.rdl = t; return nil }
func (c *conn) SetWriteDeadline(t time.Time) error { c.wdl = t; return nil }

func (c *conn) Close() error {
	if c.closed {
		return errClosed
	}
	c.closed = true
	c.sess.OnClose()
	return nil
}

func (c *conn) Write(b []byte) (int, error) {
	if c.closed {
		return 0, errClosed
	}
	simrt.Yield("write " + c.network + "!" + c.remote)
	if !c.wdl.IsZero() && !time.Now().Before(c.wdl) {
		return 0, &net.OpError{Op: "write", Net: c.network, Err: timeoutError{"write"}}
	}
	c.Writes++
	p, err := c.sess.OnWrite(append([]byte{}, b...))
	if err != nil {
		return 0, &net.OpError{Op: "write", Net: c.network, Err: err}
	}
	now := time.Now()
	for _, s := range p.Segs {
		c.q = append(c.q, arrival{now.Add(time.Duration(s.DelayNs)), s.Data})
	}
	if p.Then != "" {
		c.then = p.Then
	}
	return len(b), nil
}

// Forever is how long a read without deadline on a silent peer blocks before the simulator
// gives up on it (the engine's own operation timeout is far shorter and reports the hang).
const Forever = 100 * 365 * 24 * time.Hour

// wait sleeps until the next arrival or the read deadline; it reports false on deadline.
func (c *conn) wait() (bool, error) {
	for {
		now := time.Now()
		if len(c.q) > 0 {
			at := c.q[0].at
			if !c.rdl.IsZero() && at.After(c.rdl) && !now.Before(c.rdl) {
				return false, nil
			}
			if !at.After(now) {
				return true, nil
			}
			if !c.rdl.IsZero() && at.After(c.rdl) {
				simrt.SleepNs(int64(c.rdl.Sub(now)), "read-deadline "+c.remote)
				return false, nil
			}
			simrt.SleepNs(int64(at.Sub(now)), "read-wait "+c.remote)
			continue
		}
		switch c.then {
		case "eof":
			return true, io.EOF
		case "reset":
			return true, ErrReset
		}
		if c.rdl.IsZero() {
			simrt.SleepNs(int64(Forever), "read-forever "+c.remote)
			return false, nil
		}
		if now.Before(c.rdl) {
			simrt.SleepNs(int64(c.rdl.Sub(now)), "read-deadline "+c.remote)
		}
		return false, nil
	}
}

func (c *conn) read(p []byte, datagram bool) (int, error) {
	if c.closed {
		return 0, errClosed
	}
	c.Reads++
	simrt.Yield("read " + c.network + "!" + c.remote)
	ok, err := c.wait()
	if err != nil {
		return 0, err
	}
	if !ok {
		return 0, &net.OpError{Op: "read", Net: c.network, Err: timeoutError{"read"}}
	}
	a := &c.q[0]
	n := copy(p, a.data)
	if datagram || n == len(a.data) {
		c.q = c.q[1:]
	} else {
		a.data = a.data[n:]
	}
	return n, nil
}

func (c *TCPConn) Read(p []byte) (int, error) {
	if len(p) == 0 {
		return 0, nil
	}
	return c.read(p, false)
}

func (c *UDPConn) Read(p []byte) (int, error) { return c.read(p, true) }

func (c *UDPConn) ReadFrom(p []byte) (int, net.Addr, error) {
	n, err := c.read(p, true)
	return n, c.RemoteAddr(), err
}

func (c *UDPConn) ReadFromUDP(p []byte) (int, *net.UDPAddr, error) {
	n, err := c.read(p, true)
	return n, nil, err
}

func (c *TCPConn) CloseWrite() error { return nil }
func (c *TCPConn) CloseRead() error  { return nil }
