#!/bin/bash
# run.sh <property-id> <tier>: registered quick/thorough command of every check.
# run.sh setup: build the orchestrator and run the reference self-test.
set -u
cd "$(dirname "$0")"
export GOFLAGS=-mod=mod GOPROXY=off GOSUMDB=off GOTOOLCHAIN=local
GO=go1.26.8
command -v $GO >/dev/null 2>&1 || GO=/opt/veriftools/go1.26.8/bin/go
build() {
  mkdir -p bin
  if [ ! -x bin/verifsim ] || [ -n "$(find sim -name '*.go' -newer bin/verifsim -print -quit)" ] || [ sim/go.mod -nt bin/verifsim ]; then
    (cd sim && $GO build -o ../bin/verifsim ./cmd/verifsim) || { echo "HARNESS-ERROR cannot build the orchestrator"; exit 2; }
  fi
}
case "${1:-}" in
  setup) build; exec ./bin/verifsim refcheck ;;
  replay) build; exec ./bin/verifsim replay "$2" ;;
  "") echo "usage: run.sh <property|setup|replay> [tier|file]"; exit 2 ;;
  *) build; exec ./bin/verifsim check "$1" --tier "${2:-${VERIF_TIER:-quick}}" ;;
esac
