#!/bin/bash
# revert_sensitivity.sh [out.md] - for every repaired defect listed in known_findings.jsonl: undo the
# fix: commit in /repo's working tree (never committed), run the quick check of its property with the
# regression tapes DISABLED (so only the seeded / enumerated search counts), restore the tree.
# Shows which real defects the search alone finds again within the quick budget.
out=${1:-/verif/seeded/REVERTS.md}
cd /verif || exit 2
[ -n "$(git -C /repo status --short)" ] && { echo "/repo is not clean"; exit 2; }
trap 'git -C /repo revert --abort 2>/dev/null; git -C /repo reset -q --hard HEAD' EXIT
mkdir -p /tmp/revsens
cp evidence/*.json /tmp/revsens/
{
echo "| fix commit | property | defect (known_findings) | reverting it alone | quick check without regression tapes |"
echo "|---|---|---|---|---|"
python3 - <<'PY'
import json
seen=set()
for l in open('/verif/known_findings.jsonl'):
    d=json.loads(l)
    if d.get('status')!='fixed' or not d.get('commit'): continue
    k=(d['commit'],d['property'])
    if k in seen: continue
    seen.add(k)
    print(d['commit'],d['property'],d['what'][:110].replace('|','/').replace('\n',' '),sep='\t')
PY
} > /tmp/revsens/head.txt
head -2 /tmp/revsens/head.txt > "$out"
tail -n +3 /tmp/revsens/head.txt | while IFS=$'\t' read -r c p what; do
  if ! git -C /repo revert --no-commit "$c" >/dev/null 2>&1; then
    git -C /repo revert --abort 2>/dev/null; git -C /repo reset -q --hard HEAD
    echo "| $c | $p | $what | conflicts with later changes | not run |" >> "$out"; continue
  fi
  if ! (cd /repo/v8 && GOFLAGS=-mod=mod GOPROXY=off go build ./... >/dev/null 2>&1); then
    git -C /repo reset -q --hard HEAD
    echo "| $c | $p | $what | does not build | not run |" >> "$out"; continue
  fi
  o=$(VERIF_NO_REGRESS=1 ./run.sh "$p" quick 2>&1); rc=$?
  n=$(echo "$o" | grep -c '^VIOLATION')
  first=$(echo "$o" | grep -m1 'signature:' | sed 's/^ *signature: //' | cut -c1-120 | sed 's/|/\\|/g')
  git -C /repo reset -q --hard HEAD
  echo "| $c | $p | $what | applies | exit $rc, $n violation(s): $first |" >> "$out"
  echo "$c $p exit=$rc violations=$n"
done
cp /tmp/revsens/C*.json evidence/
