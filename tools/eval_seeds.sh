#!/bin/bash
# eval_seeds.sh <property> [other-property-to-also-check] : confirm and check mut1..3 of /tmp/mut/<property>-out
p=$1; also=${2:-}
for m in mut1 mut2 mut3; do
  echo "===== $p $m"; /verif/tools/confirm_seed.sh /tmp/mut/$p /tmp/mut/$p-out/$m | tr '\n' ';' ; echo
  /verif/tools/seedcheck.sh /tmp/mut/$p-out/$m/patch.diff $p | cut -c1-230 | tail -4
  if [ -n "$also" ]; then echo "--- under $also"; /verif/tools/seedcheck.sh /tmp/mut/$p-out/$m/patch.diff $also | cut -c1-230 | tail -3; fi
done
