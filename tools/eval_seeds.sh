#!/bin/bash
# eval_seeds.sh <property> [other-property-to-also-check] : confirm and check mut1..3 of $MUTROOT/<property>-out (MUTROOT default /tmp/mut)
p=$1; also=${2:-}; R=${MUTROOT:-/tmp/mut}
for m in mut1 mut2 mut3; do
  echo "===== $p $m"; /verif/tools/confirm_seed.sh $R/$p $R/$p-out/$m | tr '\n' ';' ; echo
  /verif/tools/seedcheck.sh $R/$p-out/$m/patch.diff $p | cut -c1-230 | tail -4
  if [ -n "$also" ]; then echo "--- under $also"; /verif/tools/seedcheck.sh $R/$p-out/$m/patch.diff $also | cut -c1-230 | tail -3; fi
done
