#!/bin/bash
# eval_wave.sh <property> [also-property] : confirm and check mut1..3 of $MUTROOT/<property>-out
# (MUTROOT default /tmp/mut) WITHOUT touching /repo: the change is applied to the author's scratch
# worktree $MUTROOT/<property> and the check is pointed at it (VERIF_REPO); regression tapes are
# disabled.  Different properties may be evaluated at the same time (one evidence file each, saved
# and restored); the same property must not.
p=$1; also=${2:-}; R=${MUTROOT:-/tmp/mut}; wt=$R/$p
cd /verif || exit 2
export GOFLAGS=-mod=mod GOPROXY=off GOSUMDB=off GOTOOLCHAIN=local
run() { # run <prop>
  local q=$1
  cp evidence/$q.json /tmp/evalwave.$p.$q.json 2>/dev/null
  res=$(VERIF_NO_REGRESS=1 VERIF_REPO=$wt ./run.sh $q quick 2>&1); rc=$?
  cp /tmp/evalwave.$p.$q.json evidence/$q.json 2>/dev/null
  echo "$res" | grep -o 'replay=[^ ]*' | cut -d= -f2 | while read -r f; do rm -f "$f"; done
  echo "$res" | grep -v '^KNOWN-FINDING' | grep -E 'signature:|HARNESS-ERROR|^C[0-9]+ (quick|thorough)' | cut -c1-260 | head -6
  echo "check $q exit $rc"
}
for m in ${MUTS:-mut1 mut2 mut3}; do
  d=$R/$p-out/$m
  [ -f $d/patch.diff ] || { echo "===== $p $m: no patch"; continue; }
  echo "===== $p $m"; /verif/tools/confirm_seed.sh $wt $d | tr '\n' ';' ; echo
  git -C $wt checkout -q -- . ; git -C $wt clean -fdq
  git -C $wt apply $d/patch.diff || { echo "does not apply"; continue; }
  run $p
  [ -n "$also" ] && { echo "--- under $also"; run $also; }
  git -C $wt checkout -q -- . ; git -C $wt clean -fdq
done
