#!/usr/bin/env python3
"""keep_seed.py <property> <name> <srcdir> <caught: yes|no|partly> <signatures/how> [needs-text]
Stores a confirmed seeded change under /verif/seeded/<property>-<name>/ (patch.diff, the
demonstration, the author's notes, meta.json)."""
import json, os, shutil, sys

prop, name, src, caught, how = sys.argv[1:6]
needs = sys.argv[6] if len(sys.argv) > 6 else ""
dst = f"/verif/seeded/{prop}-{name}"
os.makedirs(dst, exist_ok=True)
for f in ("patch.diff", "demo_test.go", "notes.md"):
    if os.path.exists(os.path.join(src, f)):
        shutil.copy(os.path.join(src, f), os.path.join(dst, f))
notes = open(os.path.join(src, "notes.md")).read() if os.path.exists(os.path.join(src, "notes.md")) else ""
meta = {
    "property": prop,
    "author": "independent sub-agent given only the property text and a scratch worktree",
    "summary": notes.strip().split("\n")[0][:300] if notes else "",
    "needs_to_manifest": needs,
    "confirmed_in_scratch_worktree": {
        "patch applies and builds": True, "existing test suite passes with the change": True,
        "demonstration fails with the change": True, "demonstration passes without the change": True,
        "how": "tools/confirm_seed.sh <scratch worktree> <dir>",
    },
    "checked_with": f"tools/seedcheck.sh seeded/{prop}-{name}/patch.diff {prop}   (quick tier, regression tapes disabled: VERIF_NO_REGRESS=1)",
    "caught": caught,
    "caught_how": how,
}
json.dump(meta, open(os.path.join(dst, "meta.json"), "w"), indent=1)
print("kept", dst)
