#!/bin/bash
# recheck_seeded.sh [pattern] : run the quick check of its property against every kept seeded change
# (seeded/<ID>-*/patch.diff matching pattern, default all), each applied to a scratch worktree of
# /repo's HEAD (VERIF_REPO), never to /repo itself.  Regression tapes are disabled.  Writes one line
# per change to seeded/RECHECK.md: caught (first signature) | MISSED | does-not-apply (a later fix:
# commit rewrote the lines the change touches).
set -u
pat=${1:-}
WT=/tmp/seedwt
cd /verif || exit 2
git -C /repo worktree remove --force $WT 2>/dev/null
git -C /repo worktree add --detach $WT HEAD >/dev/null 2>&1 || { echo "cannot create $WT"; exit 2; }
trap 'git -C /repo worktree remove --force $WT 2>/dev/null; git -C /repo worktree prune' EXIT
out=seeded/RECHECK.md
{
  echo "# Kept seeded changes against the current checks and the current tree"
  echo
  echo "/repo HEAD $(git -C /repo rev-parse --short HEAD), quick tier, regression tapes disabled, change applied to a scratch worktree (tools/recheck_seeded.sh)."
  echo
  echo "| change | result |"
  echo "|---|---|"
} > $out
for d in seeded/*${pat}*/; do
  n=$(basename $d); p=${n%%-*}
  [ -f $d/patch.diff ] || continue
  git -C $WT checkout -q -- . ; git -C $WT clean -fdq
  if ! git -C $WT apply $PWD/$d/patch.diff 2>/dev/null; then echo "| $n | does-not-apply |" >> $out; continue; fi
  if ! (cd $WT/v8 && GOFLAGS=-mod=mod GOPROXY=off GOSUMDB=off GOTOOLCHAIN=local go build ./... 2>/dev/null); then echo "| $n | does-not-build |" >> $out; continue; fi
  cp evidence/$p.json /tmp/recheck.$p.json 2>/dev/null
  res=$(VERIF_NO_REGRESS=1 VERIF_REPO=$WT ./run.sh $p quick 2>&1); rc=$?
  cp /tmp/recheck.$p.json evidence/$p.json 2>/dev/null
  echo "$res" | grep -o 'replay=[^ ]*' | cut -d= -f2 | while read -r f; do rm -f "$f"; done
  sig=$(echo "$res" | grep -v '^KNOWN' | grep 'signature:' | head -1 | sed 's/ *signature: //; s/ (seen.*//' | tr '|' '/')
  case $rc in
    1) echo "| $n | caught: $sig |" >> $out ;;
    0) echo "| $n | MISSED |" >> $out ;;
    *) echo "| $n | check exit $rc: $(echo "$res" | grep HARNESS | head -1 | cut -c1-120 | tr '|' '/') |" >> $out ;;
  esac
done
echo >> $out
echo "caught: $(grep -c '| caught' $out), missed: $(grep -c 'MISSED' $out), not applicable any more: $(grep -c 'does-not-' $out), other: $(grep -c 'check exit' $out)" >> $out
tail -1 $out
