#!/bin/bash
# confirm_seed.sh <scratch-worktree> <dir-with patch.diff,demo_test.go>
# Confirms in the scratch worktree (never in /repo): the patch applies and builds, the library's
# test suite still passes with it, the demonstration fails with it and passes without it.
set -u
wt=$(readlink -f "$1"); d=$(readlink -f "$2")
export GOFLAGS=-mod=mod GOPROXY=off GOSUMDB=off GOTOOLCHAIN=local
git -C "$wt" checkout -q -- . ; git -C "$wt" clean -fdq
first=$(head -1 "$d/demo_test.go")
place=$(echo "$first" | sed -n 's/.*place in \([^ ;]*\).*/\1/p'); place=${place%/}
runcmd=$(echo "$first" | sed -n 's/.*run: *\(.*\)$/\1/p' | sed 's/  *(.*$//')
[ -z "$place" ] && { echo "confirm: cannot parse placement from: $first"; exit 2; }
[ -z "$runcmd" ] && runcmd="go test -vet=off -count=1 -run TestSeededDemo ./${place#v8/}/"
demo="$wt/$place/zz_seeded_demo_test.go"
res() { printf '%-34s %s\n' "$1" "$2"; }
git -C "$wt" apply "$d/patch.diff" || { res "patch applies" NO; exit 1; }
res "patch applies" yes
(cd "$wt/v8" && go build ./... >/dev/null 2>&1) && res "builds" yes || { res "builds" NO; git -C "$wt" checkout -q -- .; exit 1; }
(cd "$wt/v8" && go test -vet=off -count=1 ./... >/tmp/confirm_suite.$$.log 2>&1) && res "suite passes with change" yes || { res "suite passes with change" NO; grep -E "^(---|FAIL)" /tmp/confirm_suite.$$.log | head -5; }
cp "$d/demo_test.go" "$demo"
(cd "$wt/v8" && timeout 600 bash -c "$runcmd" >/tmp/confirm_demo_with.$$.log 2>&1) && res "demo FAILS with change" "NO (passed)" || res "demo FAILS with change" yes
git -C "$wt" apply -R "$d/patch.diff"
(cd "$wt/v8" && timeout 600 bash -c "$runcmd" >/tmp/confirm_demo_without.$$.log 2>&1) && res "demo PASSES without change" yes || { res "demo PASSES without change" NO; tail -5 /tmp/confirm_demo_without.$$.log; }
rm -f "$demo"
git -C "$wt" checkout -q -- . ; git -C "$wt" clean -fdq
rm -f /tmp/confirm_suite.$$.log /tmp/confirm_demo_with.$$.log /tmp/confirm_demo_without.$$.log
