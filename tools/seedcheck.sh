#!/bin/bash
# seedcheck.sh <patch.diff> <property-id> [tier]  - apply a seeded change to /repo, run one check, undo the change.
# Prints the check's summary and VIOLATION lines; exit code is that of the check.
# The replay files written by the run are moved to /tmp/seedcheck-replays/<patch-name>/ so that
# /verif/replays keeps only what the unchanged tree produced.
set -u
patch=$(readlink -f "$1"); prop=$2; tier=${3:-quick}
cd /verif || exit 2
if [ -n "$(git -C /repo status --short)" ]; then echo "seedcheck: /repo is not clean"; exit 2; fi
trap 'git -C /repo checkout -- . ; git -C /repo clean -fdq' EXIT
git -C /repo apply "$patch" || { echo "seedcheck: patch does not apply"; exit 2; }
(cd /repo/v8 && GOFLAGS=-mod=mod GOPROXY=off go build ./... ) || { echo "seedcheck: patched tree does not build"; exit 2; }
mkdir -p /tmp/seedcheck-evidence
cp evidence/$prop.json /tmp/seedcheck-evidence/$prop.before.json 2>/dev/null
out=$(VERIF_NO_REGRESS=${VERIF_NO_REGRESS-1} ./run.sh "$prop" "$tier" 2>&1); rc=$?
echo "$out" | grep -v '^KNOWN-FINDING' | grep -E 'VIOLATION|signature:|HARNESS-ERROR|^C[0-9]+ (quick|thorough)' | cut -c1-400
name=$(basename "$(dirname "$patch")")
mkdir -p /tmp/seedcheck-replays/$prop-$name
echo "$out" | grep -o 'replay=[^ ]*' | cut -d= -f2 | while read -r f; do [ -f "$f" ] && mv "$f" /tmp/seedcheck-replays/$prop-$name/; done
# the evidence file must describe the unchanged tree: restore it
cp /tmp/seedcheck-evidence/$prop.before.json evidence/$prop.json 2>/dev/null
echo "seedcheck: exit $rc"
exit $rc
