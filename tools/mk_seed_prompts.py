#!/usr/bin/env python3
"""mk_seed_prompts.py <root>  - writes <root>/<ID>.prompt.txt for every claimed property from
tools/seed_prompt.tmpl (the sub-agents get the property's text and a scratch worktree, nothing of
the machinery) and prints the git commands that create the worktrees."""
import json, sys
root = sys.argv[1]
props = {}
for l in open('/verif/properties.jsonl'):
    d = json.loads(l); props[d['id']] = d
claimed = [c['property_id'] if 'property_id' in c else c.get('id') for c in json.load(open('/verif/MANIFEST.json'))['checks']]
emph = {
 'C02': 'For this property prefer changes that only manifest under a particular interleaving of goroutines or at a particular instant (clean-up timing, expiry boundaries, lock scope), not on particular input values.',
 'C10': 'For this property prefer changes that only manifest over time (around expiry, renewal points, renew-till, re-login) or after a particular sequence of operations (destroy then use, repeated requests, referral then direct request), not on a single request.',
 'C11': 'For this property prefer changes that are data races, lock-order inversions, lost updates or check-then-act gaps which need two or more goroutines to overlap in a small window; at least one should NOT be a plain unsynchronised write that a race detector flags on first contact, but a logical race (each access locked, the combination not atomic).',
 'C12': 'For this property prefer changes that need a particular SEQUENCE of faults across servers and transports (first server does X, second does Y, fallback transport does Z), or a fault at a particular byte offset of a reply.',
 'C18': 'For this property prefer changes that need a particular SEQUENCE of server responses (e.g. redirect, then challenge, then redirect), a reused client, a particular body size / reading pattern of the server, or time passing between requests.',
 'C03': 'For this property prefer changes that need a SEQUENCE of requests (session establishment, then reuse, then expiry/tampering), a failing session store at a particular call, or an unusual token framing.',
 'C04': 'For this property prefer changes in decoders/parsers/verifiers that are NOT the ones most obviously exposed (look at gssapi MIC/Wrap tokens, kadmin, PAC sub-structures, keytab/ccache corner cases, krb5.conf sections other than [realms], ASN.1 helper functions, SPNEGO NegTokenResp), reachable only with well-formed but unusual structure or with two fields corrupted consistently.',
 'C01': 'For this property prefer changes that need a combination of service settings and request features (e.g. keytab principal override + kvno, required address + address family, PAC decoding + etype), a time bound at its exact edge, or a history (replay after clean-up).',
 'C09': 'For this property prefer changes that need a particular flow (pre-authentication round trip, referral hop, TCP after UDP failure), a particular etype, or a reply that is valid for ANOTHER request of the same client.',
 'C20': 'For this property prefer changes on rarely taken paths: errors raised deep inside crypto or ASN.1 helpers, String()/Format/JSON methods of types that embed keys, logging at debug call sites, re-encoding after partial decryption, GSS-API wrap/MIC tokens, kadmin messages.',
}
t = open('/verif/tools/seed_prompt.tmpl').read()
for p in claimed:
    pr = props[p]
    s = (t.replace('@WT@', f'{root}/{p}').replace('@OUT@', f'{root}/{p}-out').replace('@ID@', p).replace('@TITLE@', pr['title'])
          .replace('@STATEMENT@', pr['statement']).replace('@QUANTIFIER@', pr['quantifier']['text']).replace('@EMPHASIS@', emph.get(p, '')))
    open(f'{root}/{p}.prompt.txt', 'w').write(s)
    print(f'git -C /repo worktree add -q --detach {root}/{p} HEAD')
